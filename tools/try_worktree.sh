#!/bin/bash
# usage: tools/try_worktree.sh <worktree-with-a-change> <ID> [<ID>...]
# Runs the quick checks against a scratch worktree of /repo WITHOUT touching /repo: a copy of the
# framework under /tmp/vmut is pointed at the worktree (path dependencies rewritten). The copy and its
# build output are scratch; remove /tmp/vmut when done.
set -u
wt="$1"; shift
rm -rf /tmp/vmut/target; mkdir -p /tmp/vmut
rsync -a --delete --exclude target --exclude .git --exclude .work --exclude replays --exclude evidence --exclude 'fuzz/target' --exclude seeded /verif/ /tmp/vmut/ --exclude /target
mkdir -p /tmp/vmut/evidence
sed -i "s#path = \"/repo/#path = \"$wt/#g" /tmp/vmut/harness/Cargo.toml
for id in "$@"; do
  t0=$(date +%s)
  /tmp/vmut/check "$id" > /tmp/vmut.$id.out 2>&1; rc=$?
  echo "$id exit=$rc violations=$(grep -c '^VIOLATION' /tmp/vmut.$id.out) secs=$(( $(date +%s) - t0 ))"
  grep -m2 -E "violation detail|C05:|C10:|C11:" /tmp/vmut.$id.out | cut -c1-600
done
