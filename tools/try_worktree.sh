#!/bin/bash
# usage: tools/try_worktree.sh <worktree-with-a-change> <ID> [<ID>...]
# Runs the quick checks against a scratch worktree of /repo WITHOUT touching /repo: a copy of the
# framework under $V is pointed at the worktree (path dependencies rewritten). The copy and its
# build output are scratch; remove $V when done.
set -u
wt="$1"; shift
V="${VMUT:-/tmp/vmut}"   # set VMUT=/tmp/vmut-<x> to test several worktrees in parallel
rm -rf $V/target; mkdir -p $V
rsync -a --delete --exclude target --exclude .git --exclude .work --exclude replays --exclude evidence --exclude 'fuzz/target' --exclude seeded /verif/ $V/ --exclude /target
mkdir -p $V/evidence
sed -i "s#path = \"/repo/#path = \"$wt/#g" $V/harness/Cargo.toml
for id in "$@"; do
  t0=$(date +%s)
  $V/check "$id" > $V.$id.out 2>&1; rc=$?
  echo "$id exit=$rc violations=$(grep -c '^VIOLATION' $V.$id.out) secs=$(( $(date +%s) - t0 ))"
  grep -m2 -E "violation detail|C05:|C10:|C11:" $V.$id.out | cut -c1-600
done
