#!/bin/bash
# usage: tools/sweep.sh <seed> [ids...]  - runs quick checks with VERIF_SEED=<seed>, prints one line per check
seed=$1; shift
ids=${@:-C01 C02 C03 C04 C05 C06 C07 C08 C09 C10 C11 C12 C13 C14 C15 C16 C17}
for id in $ids; do
  t0=$(date +%s)
  VERIF_SEED=$seed /verif/check $id > /tmp/sweep.$seed.$id.out 2>&1; rc=$?
  echo "seed=$seed $id exit=$rc viol=$(grep -c '^VIOLATION' /tmp/sweep.$seed.$id.out) known=$(grep -c '^KNOWN-FINDING' /tmp/sweep.$seed.$id.out) secs=$(( $(date +%s) - t0 ))"
done
