#!/usr/bin/env python3
"""One-off: copy the published test vectors the model self-test uses out of /repo into
/verif/vectors, so that later edits to /repo cannot move the oracle. Run at design time;
the outputs are committed."""
import re, sys, shutil, hashlib
src = open('/repo/curve25519-dalek/src/ristretto.rs').read()

def arrays_after(fn_name, ctor):
    i = src.index('fn %s' % fn_name)
    j = src.index('\n    }\n', i)
    body = src[i:j]
    out = []
    for m in re.finditer(re.escape(ctor) + r'\(\[(.*?)\]\)', body, re.S):
        nums = [int(x) for x in re.findall(r'\d+', m.group(1))]
        out.append(bytes(nums))
    return body, out

body, sm = arrays_after('encodings_of_small_multiples_of_basepoint', 'CompressedRistretto')
assert len(sm) == 16 and all(len(x) == 32 for x in sm)
open('vectors/ristretto_small_multiples.txt', 'w').write(''.join(x.hex() + '\n' for x in sm))

# elligator_vs_ristretto_sage: bytes: [[u8;32];16], encoded_images: [CompressedRistretto;16]
i = src.index('fn elligator_vs_ristretto_sage')
j = src.index('\n    }\n', i)
body = src[i:j]
k = body.index('let encoded_images')
ins = [bytes(int(x) for x in re.findall(r'\d+', m.group(1))) for m in re.finditer(r'\[([\d,\s]+?)\]', body[:k]) if len(re.findall(r'\d+', m.group(1))) == 32]
outs = [bytes(int(x) for x in re.findall(r'\d+', m.group(1))) for m in re.finditer(r'CompressedRistretto\(\[(.*?)\]\)', body[k:], re.S)]
assert len(ins) == 16 and len(outs) == 16, (len(ins), len(outs))
open('vectors/ristretto_elligator.txt', 'w').write(''.join(a.hex() + ' ' + b.hex() + '\n' for a, b in zip(ins, outs)))

# one_way_map: 64-byte inputs and encoded images (RFC 9496 appendix A.3)
i = src.index('fn one_way_map')
j = src.index('\n    }\n', i)
body = src[i:j]
arrs = [bytes(int(x, 16) for x in re.findall(r'0x([0-9a-f]{2})', m.group(1))) for m in re.finditer(r'\[([^\[\]]*)\]', body)]
ins = [x for x in arrs if len(x) == 64]
outs = [x for x in arrs if len(x) == 32]
print(len(ins), len(outs))
assert len(ins) == len(outs) and len(outs) >= 7 and all(len(x) == 64 for x in ins) and all(len(x) == 32 for x in outs)
with open('vectors/ristretto_one_way_map.txt', 'w') as f:
    for a, o in zip(ins, outs):
        f.write(a.hex() + ' ' + o.hex() + '\n')
shutil.copy('/repo/ed25519-dalek/TESTVECTORS', 'vectors/ed25519_sign.input')
print('ok')
