#!/usr/bin/env python3
"""Regenerates /verif/MANIFEST.json from the table below (keeps it valid and in one place)."""
import json, os, subprocess
ROOT = os.path.dirname(os.path.dirname(os.path.abspath(__file__)))

CLAIMED = {
    "C01": dict(
        text="Generated-input search against an independent integer model of GF(2^255-19): every field operation of the serial FieldElement of each of the six builds (u64, u32, fiat-u64, fiat-u32; the simd/avx512 builds use the u64 serial field) reached through the guarded hook, on 32-byte inputs (special, non-canonical, bit 255) and on raw limb vectors inside the documented headroom incl. all-limbs-at-bound and k*p-shifted representations; results compared on canonical bytes and on the value of the raw result limbs. Checked builds (debug assertions + overflow checks). Exploration level, not a proof.",
        note="Trusts the reference model and the hook wrappers (thin, additive). Admissible limb ranges are the documented ones (u64 < 2^54; u32 b < 1.75; fiat tight bounds).",
        technique="property-based testing (proptest) against a reference model, raw-limb generators at the contract boundary",
        design="3/C01"),
    "C02": dict(
        text="Generated-input search against an independent big-integer model of Z/l: every public scalar constructor and operator, on structured operands (k*l+-d, powers of two, all-ones limbs, solved-for products and sums), in all six back-end builds (both limb widths), with debug assertions and overflow checks on. Exploration level: no violation on >=60k cases per build (quick), not a proof.",
        note="Trusts the reference model (self-tested against Python integers and published vectors) and the sha2 crate for SHA-512. Arithmetic on unreduced scalars is documented as undefined and excluded.",
        technique="property-based testing (proptest) against a reference model; differential over 6 back-end builds",
        design="3/C02"),
}

CLAIMED["C03"] = dict(
    text="Generated-input search against the textbook affine group law on integers: the Edwards decoder on 32-byte strings by class (valid, the 2x19 non-canonical y, y=+-1/0 with either sign bit, sign-flipped, off-curve, special patterns), and histories of up to 40 group operations over six registers drawn from the full group of order 8l with imposed exceptional relations (Q=-P, Q=P, Q=P+T); after every step the compressed encoding and, through the hook, the extended coordinates (curve equation, XY=ZT, Z!=0, X/Z and Y/Z equal to the model) are checked; at the end the == matrix and the identity/small-order/torsion-free predicates. Six back-end builds. Exploration level.",
    note="Trusts the reference model. The decoder oracle is the statement's rule (accept iff (y^2-1)/(dy^2+1) is a square, y reduced mod p; requested sign unless x=0), not RFC 8032's stricter one.",
    technique="property-based testing (proptest): model-based histories with shrinking + decoder class generators",
    design="3/C03")
CLAIMED["C04"] = dict(
    text="Generated-input search against the definition sum s_i*P_i computed in the abstract group Z/l x Z/8 (pool points with known discrete logs and torsion components) or by model double-and-add (arbitrary points): every Edwards scalar-multiplication entry point incl. tables of five radices built from arbitrary points, radix conversions, optional/None inputs, fewer static scalars, n on every regime boundary up to 1000, with window-structured scalars (canonical, and unreduced < 2^255 where documented); every case is executed once per implementation the run-time dispatcher could select (serial/AVX2/IFMA forced through the hook), in nine builds (six back ends + three without precomputed tables); the signed-digit recoders are checked directly by a validity predicate at high volume. Exploration level.",
    note="Trusts the reference model and the guarded dispatcher override. Montgomery ladder and Ristretto wrappers are covered under C07/C06 and added to this check's stream as they are built.",
    technique="property-based testing (proptest) against a reference model; forced run-time dispatch; validity-predicate oracle for recoders",
    design="3/C04")
CLAIMED["C12"] = dict(
    text="Complete enumeration (no sampling) in nine builds: every entry of every shipped table (radix-16 basepoint table incl. the transmuted Ristretto view, serial affine odd multiples, AVX2 and IFMA cached odd multiples) read out raw through the hook and compared with the model's multiple of the basepoint; every internal field constant against its defining equation; L, R, RR, LFACTOR; P_TIMES_2/16 and vector identities; the public constants of the three crates; and, independently through the public API only, one fixed-base multiplication per basepoint-table entry and one double-base multiplication per odd-multiples entry under every forced dispatch. Evidence exhaustive=true.",
    note="Trusts the reference model (its constants are themselves checked against defining equations in the self-test) and the hook read-out wrappers.",
    technique="exhaustive enumeration of a finite space against a reference model (generated scalars select each table entry through the public API)",
    design="3/C12")
CLAIMED["C06"] = dict(
    text="Generated-input search against a transcription of RFC 9496 on integers plus the group-theoretic definition of equality (P1-P2 in E[4]): decoder by rejection class (only 'negative s' is covered by the suite), re-encoding, the one-way map on chosen inputs incl. solved-for exceptional r, histories, equality vs encoding equality, batched double-and-compress with identity-coset members, all scalar-mul wrappers, and through the hook the four internal representatives of an element and the Elligator map on raw representations. Six back-end builds. Exploration level.",
    note="Trusts the model's RFC 9496 transcription (self-tested on the RFC's small multiples, Elligator, one-way-map and bad-encoding vectors).",
    technique="property-based testing (proptest) against an RFC transcription; metamorphic representative injection through the hook",
    design="3/C06")
CLAIMED["C07"] = dict(
    text="Generated-input search against the RFC 7748 ladder transcribed on integers (cross-checked through the Edwards model for the base point): byte-level X25519 for clamping-relevant k and u of every class (0, 1, -1, non-canonical, bit 255, small order, twist), typed ephemeral/reusable/static Diffie-Hellman driven by a byte-fed RNG, MontgomeryPoint*Scalar, the bit-string ladder, clamped/base variants, to_edwards for every sign byte, to_montgomery on all point classes, equality/Hash mod p, contributory flag, the Ed25519-to-X25519 key conversions. Six back-end builds. Exploration level.",
    note="Trusts the reference model; SHA-512 from sha2 on both sides for the Ed25519 conversion.",
    technique="property-based testing (proptest) against an RFC 7748 transcription",
    design="3/C07")
CLAIMED["C08"] = dict(
    text="Generated-input search against RFC 8032 on the integer model: byte equality of derived keys and of pure / prehashed / hazmat signatures for special seeds, block-edge message lengths, contexts 0..255 (accepted) and 256+ (refused), chosen prehashes through a pass-through digest, expanded keys from arbitrary bytes, keypair import with matching/foreign/sign-flipped halves; every produced signature then goes through all eight verification entry points untampered and with key/message/signature/context replaced. Six back-end builds with batch, digest, hazmat features on (never compiled by the baseline). Exploration level.",
    note="Trusts the reference model (self-tested on the 128 sign.input lines and the RFC 8032 Ed25519ph vector) and sha2 for SHA-512.",
    technique="property-based testing (proptest) against an RFC 8032 reference model; round trip through all verifiers",
    design="3/C08")
CLAIMED["C09"] = dict(
    text="Generated adversarial triples against the documented acceptance predicate evaluated on the integer model, both directions, for eight verification entry points: S+k*l / l / high bits, all 14 accepted encodings of the 8 torsion points as key and as R with the message searched until the cofactorless equation holds, mixed-order keys with messages searched for k*T=O, small-order R under honest keys, undecodable / non-canonical / arbitrary R and A, prehashed with contexts; default and legacy_compatibility builds (legacy S rule in the model), serial32, simd, avx512. Thorough tier adds a coverage-guided libFuzzer target (fz_verify, ASan, model predicate inside the target). Exploration level. Added while seeding: keys parsed from slices as well as arrays, the signing key's own verifiers on adversarial signatures, mixed-order keys with a solved-for small-order R (pure and prehashed), the identity as key with any chosen canonical S (S in [2^252, l) cannot be reached otherwise), key equality / hashing on alias encodings.",
    note="Trusts the reference model. Contexts longer than 255 bytes are outside the documented domain of the prehashed verifiers (debug_assert) and are not sent to them.",
    technique="property-based testing (proptest) with model-solved adversarial inputs; predicate oracle in both directions",
    design="3/C09")
CLAIMED["C13"] = dict(
    text="Generated batches (n incl. 0, 1 and the Straus/Pippenger switch up to 400) from a pool of honest entries with generated corruptions (foreign key, message flip, foreign R, foreign valid S, the cancellation pair S_i+e/S_j-e, duplication), error classes (S+l, undecodable R, every slice-length mismatch), permutations and repeated calls; verify_batch must be Ok exactly when the model's single-verification predicate holds for every entry, and Err (never panic/Ok) for the error classes. Exploration level. Added while seeding: single cancellation / swap pairs at structured index distances, exactly one corrupted entry at structured positions of batches of 1..1100 (incl. all-same batches), every alias S + k*l, and forgeries S_i += z_j, S_j -= z_i built from coefficients PREDICTED by a replica of the merlin derivation under the hypotheses that S (or everything) is not bound.",
    note="Domain as stated by the property: canonical torsion-free keys and R. Trusts the reference model.",
    technique="property-based testing (proptest): model-based + metamorphic (permutation, duplication, repetition)",
    design="3/C13")
CLAIMED["C05"] = dict(
    text="Differential search: one generated stream of requests covering every public operation of the three crates (union of the public-API generators of all other properties, plus large multiscalar/batch cases on regime boundaries) is replayed by 15 participants - release builds of the six back ends, two builds without precomputed tables, and the checked simd/avx512 builds under every forced run-time dispatch choice (serial, AVX2, IFMA) - and every response (bytes and None/Err/panic tags) must be identical wherever the operation exists. No model needed. Exploration level.",
    note="Only configurations that run on this x86-64 host; 32-bit limbs are exercised through curve25519_dalek_bits=32 on x86-64. IFMA needs the nightly toolchain.",
    technique="differential fuzzing across build configurations and forced dispatch with structured generators",
    design="3/C05")
CLAIMED["C11"] = dict(
    text="Four layers in checked builds (debug assertions, overflow checks, guarded monitors asserting the documented lane preconditions at the entry of every AVX2/IFMA field method): (1) every field kernel of every back end from raw limbs at the documented admissible bound, with the documented output bound re-checked on the raw result; (2,3) group formulas (serial, AVX2, IFMA) started from coordinates whose representations sit at the stored-coordinate bound, incl. operands solved for so that inner products are -1..-4, compared with the same formulas on canonical representations (representation independence), no panic, no monitor hit; (4) the public request stream in each checked build must not panic and must equal the release build of the same back end. Worst cases are approached by construction, not bounded: exploration level.",
    note="Sampling, not interval analysis (DESIGN.md section 5). Known finding avx2-neg-documented-bound is reported, its sliver excluded by construction.",
    technique="property-based testing at contract boundaries: raw-limb generators, metamorphic representation independence, run-time bound monitors, checked-vs-release differential",
    design="3/C11")
CLAIMED["C15"] = dict(
    text="Generated untrusted input into every decoding/verifying entry point in release builds (three back ends quick, eight builds thorough): slices of every length, array decoders, hash-to-group/scalar with chosen (pass-through digest) and solved-for exceptional Elligator inputs, X25519 and the birational conversions with every sign byte, all verifiers on adversarial and arbitrary triples incl. contexts > 255 bytes, batch verification on arbitrary/mismatched input, keypair import, serde deserialisers on structured and raw payloads, GroupEncoding; oracle: never a panic, and None/Err exactly where the models say malformed. Thorough tier adds the coverage-guided libFuzzer target fz_untrusted (ASan, oracle inside the target, seed corpus generated from the structured generators). Exploration level.",
    note="A hang would be reported as exit 2 (watchdog), never as a violation. Trusts the reference models of C03/C06/C07/C09/C13/C16/C17.",
    technique="property-based testing / fuzzing with structured and raw byte generators; totality + model oracle",
    design="3/C15")
CLAIMED["C16"] = dict(
    text="All 11 serialisable types x {bincode, serde_json} (serde feature, never compiled by the baseline): serialised bytes must equal the canonical encoding exactly, deserialize(serialize(v)) = v, and Deserialize succeeds iff the native decoder accepts the same bytes - fed right-length valid/invalid (non-canonical scalar, undecodable Edwards/Ristretto), short, over-long, malformed JSON shapes (incl. a valid prefix followed by one unparsable trailing element) and raw wire bytes; saved inputs of the repaired finding are replayed on every run; thorough tier adds the libFuzzer target fz_untrusted, which found that finding. Exploration level. Added while seeding: three in-memory deserialisers as further formats (u8 sequence with an exact size hint, serde_json::Value array, byte slice) to drive the visitor paths that bincode and JSON text never take; short / trailing-unparsable-element shapes.",
    note="Trailing bytes after a complete bincode value are the format's concern and are not generated/asserted.",
    technique="property-based testing: round trip + model-predicted accept/reject per payload shape",
    design="3/C16")
CLAIMED["C17"] = dict(
    text="ff/group trait implementations (group feature, never compiled by the baseline) against the integer model: sqrt is Some exactly for residues (Legendre symbol) with r^2=x, invert None only for zero, ff 0.13's sqrt_ratio contract, from_repr(_vartime) iff < l, to_repr/is_odd/bits/FromUniformBytes, defining relations of MODULUS, TWO_INV, S, generator, ROOT_OF_UNITY(_INV), DELTA; GroupEncoding of EdwardsPoint/SubgroupPoint/RistrettoPoint on all encoding classes; SubgroupPoint admits exactly torsion-free points; clear_cofactor=[8]P; subgroup operators mirror the Edwards model. Exploration level.",
    note="Generator-ness of MULTIPLICATIVE_GENERATOR is checked as: quadratic non-residue with the derived root-of-unity relations (DESIGN.md 3/C17 L).",
    technique="property-based testing against a reference model / field axioms",
    design="3/C17")
CLAIMED["C10"] = dict(
    text="Metamorphic search over generated secrets: 24 operations not documented as variable-time run in release binaries WITHOUT hooks (five back ends quick; plus table-less builds thorough), once per secret (extreme nibble/byte patterns that drive table lookups to their ends plus proptest-generated structured secrets), under valgrind --tool=lackey --trace-mem=yes; the complete sequence of instruction addresses and load/store addresses+sizes between two marker stores must be byte-identical across all secrets of an (operation, back end) pair. The AVX-512 IFMA back end, which valgrind cannot execute, is observed by native ptrace single-stepping (sequence of instruction pointers inside the marked region) for the operations that dispatch to it. A deliberately variable-time control operation must be seen to differ under both tracers, otherwise the run is inconclusive (exit 2). Exploration level for this compiler's output. As built now: 59 operations (group, scalar, field-level predicates, equality on points with torsion, decoders, batch compression, key expansion, fixed-base tables of every radix created from a public point), secrets include values RELATED to the public inputs (equal / opposite / same-x), and a second oracle: the same regions under valgrind memcheck with the storage of every secret marked undefined (client request from the driver), which reports secret-dependent branches and addresses whether or not the concrete secret takes them (decoders excluded; one always-true assert allow-listed by function and source text).",
    note="IFMA: instruction addresses only (data addresses are not observed there). Trace equality on sampled secrets is not a proof; timing channels that are neither control-flow nor address dependent are out of scope.",
    technique="metamorphic testing on execution traces (valgrind lackey; ptrace single-stepping for IFMA) over generated secrets, plus dynamic taint tracking of the same executions (valgrind memcheck as the sanitizer)",
    design="3/C10")
CLAIMED["C14"] = dict(
    text="Generated create-use-drop sequences and calls under an instrumenting global allocator: (i) the contents of every heap block freed during constant-time multiscalar_mul (Edwards/Ristretto, n = 1..40 quick / 300 thorough, serial and vector copies via forced dispatch) and Scalar::batch_invert must be identical for two different secret-scalar vectors and contain no 8-byte window of the scalars, their radix-16 digit strings or partial products; (ii) SigningKey, ExpandedSecretKey, Ephemeral/Reusable/StaticSecret, SharedSecret are built in storage the harness owns, used, drop_in_place'd, and the storage searched for secret windows; (iii) explicit zeroize() results. Exploration level. Added while seeding: the same drops in a Box that is freed right after (an erasure written as an ordinary store is removed by dead-store elimination there), explicit zeroize() of every secret type compared on the RAW storage (points: all four coordinates of the identity), n up to 150 in the quick tier, every back end in the quick tier.",
    note="Stack copies and registers are outside the statement and not inspected. Secrets are generated without zero bytes so that 'still there' is distinguishable from 'zeroed'.",
    technique="property-based testing with an instrumenting allocator (metamorphic: two secrets, same public inputs) and post-drop storage inspection",
    design="3/C14")

ALL = ["C%02d" % i for i in range(1, 18)]
REASON_PENDING = "check not built yet (see DESIGN.md build order); not claimed"

def main():
    commits = subprocess.run(["git", "-C", "/repo", "log", "--format=%H %s"], capture_output=True, text=True).stdout.splitlines()
    hook_commits = [l.split()[0] for l in commits if "verif hooks" in l or "verif hook" in l]
    checks = []
    for pid in ALL:
        if pid not in CLAIMED:
            continue
        c = CLAIMED[pid]
        checks.append({
            "property_id": pid,
            "quick_cmd": "./check %s --tier quick" % pid,
            "thorough_cmd": "./check %s --tier thorough" % pid,
            "evidence_file": "/verif/evidence/%s.json" % pid,
            "replay_cmd_template": "./check %s --replay {path}" % pid,
            "engine": "harness",
            "level_claimed": {"category": "exploration", "text": c["text"], "design_ref": "DESIGN.md section " + c["design"]},
            "level_note": c["note"],
            "technique": c["technique"],
        })
    m = {
        "version": 1,
        "setup_cmd": "./check --setup",
        "hooks": {
            "guard": "--cfg curve25519_dalek_verif",
            "enable": "RUSTFLAGS=\"--cfg curve25519_dalek_verif [--cfg curve25519_dalek_backend=.. --cfg curve25519_dalek_bits=..]\" set per build configuration by /verif/check (V-* configurations; R-* configurations are built with the guard off)",
            "baseline_off_cmd": "cd /repo && cargo test --workspace --no-fail-fast --offline",
            "source_commits": hook_commits,
            "add_only": True,
        },
        "engines": [
            {"name": "fuzz", "path": "/verif/fuzz", "serves_properties": ["C09", "C15", "C16"],
             "kind_free_text": "cargo-fuzz / libFuzzer targets (nightly, ASan) whose oracle is inside the target; thorough tiers only"},
            {"name": "harness", "path": "/verif/harness", "serves_properties": sorted(CLAIMED.keys()),
             "kind_free_text": "Rust driver (proptest runner, reference model, request executors) built once per back-end/feature configuration by /verif/check, which fans runs out over the cores and merges evidence"},
        ],
        "checks": checks,
        "notes": "See DESIGN.md. Exit codes of every command: 0 held, 1 violation (VIOLATION line), 2 inconclusive/infrastructure.",
        "not_applicable": [{"property_id": p, "reason": REASON_PENDING} for p in ALL if p not in CLAIMED],
    }
    json.dump(m, open(os.path.join(ROOT, "MANIFEST.json"), "w"), indent=1)
    print("claimed:", sorted(CLAIMED.keys()))

if __name__ == "__main__":
    main()
