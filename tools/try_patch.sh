#!/bin/bash
# usage: tools/try_patch.sh <patch.diff> <ID> [<ID>...]   applies the patch to /repo, runs the quick checks, reverts.
set -u
patch="$1"; shift
cd /repo || exit 2
if ! git diff --quiet; then echo "/repo working tree not clean"; exit 2; fi
git apply "$patch" || { echo "patch does not apply"; exit 2; }
for id in "$@"; do
  t0=$(date +%s)
  /verif/check "$id" > /tmp/try.$id.out 2>&1; rc=$?
  echo "$id exit=$rc violations=$(grep -c '^VIOLATION' /tmp/try.$id.out) secs=$(( $(date +%s) - t0 ))"
  grep -m2 -E "violation detail|C05:|C11:" /tmp/try.$id.out | cut -c1-700
done
git -C /repo checkout -- . ; git -C /repo status --short
