#!/bin/bash
# usage: tools/confirm_seed.sh <ID> <package> <demo-test-name> [extra cargo test args...]
# Confirms a seeded change in its scratch worktree /tmp/seed-<ID> (patch applied, demo file in place):
#   1. the baseline test command with the patch, 2. the demonstration with the patch (must fail),
#   3. the demonstration on the pristine sources (must pass); leaves the patch applied again.
# RUSTFLAGS for the demo are taken from DEMO_RUSTFLAGS.
set -u
id="$1"; pkg="$2"; demo="$3"; shift 3
wt=/tmp/seed-$id; out=/tmp/seed-$id-out; td=$wt/target
cd "$wt" || exit 2
summ() { grep -E "^test result" "$1" | awk '{p+=$4; f+=$6} END {print p" passed "f" failed"}'; }
CARGO_NET_OFFLINE=true cargo test --workspace --no-fail-fast --offline --target-dir "$td" > "$out/confirm.baseline.log" 2>&1
echo "$id baseline(with patch): $(summ "$out/confirm.baseline.log") (demo included if it lives in tests/)"
grep -E "^test .* FAILED|failed$" "$out/confirm.baseline.log" | sort -u | head -8
RUSTFLAGS="${DEMO_RUSTFLAGS:-}" CARGO_NET_OFFLINE=true cargo test -p "$pkg" --test "$demo" --offline --target-dir "$td-demo" "$@" > "$out/confirm.demo.patched.log" 2>&1
echo "$id demo with patch exit=$? $(grep -E '^test result' "$out/confirm.demo.patched.log" | tail -1)"
git apply -R "$out/patch.diff" || { echo "cannot revert patch"; exit 2; }
RUSTFLAGS="${DEMO_RUSTFLAGS:-}" CARGO_NET_OFFLINE=true cargo test -p "$pkg" --test "$demo" --offline --target-dir "$td-demo" "$@" > "$out/confirm.demo.pristine.log" 2>&1
echo "$id demo pristine exit=$? $(grep -E '^test result' "$out/confirm.demo.pristine.log" | tail -1)"
git apply "$out/patch.diff"
rm -rf "$td-demo"
