#!/usr/bin/env python3
"""Reference vectors computed with nothing but Python's built-in integers and hashlib.
Used only by the model self-test (driver selftest): the Rust reference model must agree
with these on every line. Deterministic (fixed seed). Output: vectors/pyref.txt"""
import hashlib, random, sys
p = 2**255 - 19
l = 2**252 + 27742317777372353535851937790883648493
d = (-121665 * pow(121666, p - 2, p)) % p
I = pow(2, (p - 1) // 4, p)
rnd = random.Random(20261003)

def le(x, n=32): return x.to_bytes(n, 'little').hex()
def inv(x): return pow(x, p - 2, p)
def sqrt_even(a):
    c = pow(a, (p + 3) // 8, p)
    if c * c % p != a % p:
        c = c * I % p
    if c * c % p != a % p:
        return None
    return c if c % 2 == 0 else p - c
def sqrt_ratio_i(u, v):
    u %= p; v %= p
    if u == 0: return (1, 0)
    if v == 0: return (0, 0)
    q = u * inv(v) % p
    r = sqrt_even(q)
    if r is not None: return (1, r)
    return (0, sqrt_even(I * q % p))
def edadd(P, Q):
    (x1, y1), (x2, y2) = P, Q
    t = d * x1 * x2 * y1 * y2 % p
    return ((x1 * y2 + y1 * x2) * inv(1 + t) % p, (y1 * y2 + x1 * x2) * inv(1 - t) % p)
def edmul(k, P):
    R = (0, 1)
    for bit in bin(k)[2:] if k else '':
        R = edadd(R, R)
        if bit == '1': R = edadd(R, P)
    return R
def compress(P): return le(P[1] | ((P[0] & 1) << 255))
def decompress(b):
    v = int.from_bytes(b, 'little'); sign = v >> 255; y = (v & (2**255 - 1)) % p
    xx = (y * y - 1) * inv(d * y * y + 1) % p
    x = sqrt_even(xx)
    if x is None: return None
    if sign: x = (-x) % p
    return (x, y)
By = 4 * inv(5) % p
B = decompress(By.to_bytes(32, 'little'))
def clamp(k):
    k = bytearray(k); k[0] &= 248; k[31] &= 127; k[31] |= 64; return int.from_bytes(k, 'little')
def x25519(kb, ub):
    k = clamp(kb); u = (int.from_bytes(ub, 'little') & (2**255 - 1)) % p
    x1, x2, z2, x3, z3, swap = u, 1, 0, u, 1, 0
    for t in range(254, -1, -1):
        kt = (k >> t) & 1; swap ^= kt
        if swap: x2, x3, z2, z3 = x3, x2, z3, z2
        swap = kt
        A = (x2 + z2) % p; AA = A * A % p; Bb = (x2 - z2) % p; BB = Bb * Bb % p; E = (AA - BB) % p
        C = (x3 + z3) % p; D = (x3 - z3) % p; DA = D * A % p; CB = C * Bb % p
        x3 = (DA + CB) ** 2 % p; z3 = x1 * (DA - CB) ** 2 % p
        x2 = AA * BB % p; z2 = E * (AA + 121665 * E) % p
    if swap: x2, x3, z2, z3 = x3, x2, z3, z2
    return le(x2 * inv(z2) % p)
def H(*parts):
    h = hashlib.sha512()
    for q in parts: h.update(q)
    return h.digest()
def ed_keys(seed):
    h = H(seed); a = clamp(h[:32]); return a, h[32:], bytes.fromhex(compress(edmul(a, B)))
def ed_sign(seed, msg, dom=b''):
    a, prefix, pk = ed_keys(seed)
    r = int.from_bytes(H(dom, prefix, msg), 'little') % l
    R = bytes.fromhex(compress(edmul(r, B)))
    k = int.from_bytes(H(dom, R, pk, msg), 'little') % l
    S = (r + k * a) % l
    return pk.hex() + R.hex() + le(S)

SPECIAL = [0, 1, 2, 18, 19, 20, p - 1, p - 2, p, p + 1, p + 18, 2**255 - 1, 2**255, 2**256 - 1, l - 1, l, l + 1, 2 * l, 2**252, 2**252 - 1, 8 * l - 1, (p - 1) // 2, I, p - I]
def rv(bound=2**256):
    return rnd.choice(SPECIAL) % bound if rnd.random() < 0.3 else rnd.randrange(bound)

out = []
for _ in range(300):
    a, b = rv(), rv()
    A, Bm = (a & (2**255 - 1)) % p, (b & (2**255 - 1)) % p
    out.append(f"fadd {le(a)} {le(b)} {le((A + Bm) % p)}")
    out.append(f"fsub {le(a)} {le(b)} {le((A - Bm) % p)}")
    out.append(f"fmul {le(a)} {le(b)} {le(A * Bm % p)}")
    out.append(f"finv {le(a)} {le(inv(A))}")
    w, r = sqrt_ratio_i(A, Bm)
    out.append(f"fsqrtratio {le(a)} {le(b)} {w:02x}{le(r)}")
    out.append(f"sadd {le(a)} {le(b)} {le((a + b) % l)}")
    out.append(f"smul {le(a)} {le(b)} {le(a * b % l)}")
    if a % l: out.append(f"sinv {le(a)} {le(pow(a % l, l - 2, l))}")
    wv = rv(2**512) if rnd.random() < 0.5 else rnd.choice([2**512 - 1, l * l, l * l - 1, 2**260, 2**261, 2**256, 2**511])
    out.append(f"swide {le(wv, 64)} {le(wv % l)}")
for _ in range(60):
    k1, k2 = rv(2**255), rv(2**255)
    P = edmul(k1 % (8 * l), B)
    out.append(f"edmul {le(k2)} {compress(P)} {compress(edmul(k2, P))}")
    Q = edmul(k2, B)
    out.append(f"edadd {compress(P)} {compress(Q)} {compress(edadd(P, Q))}")
for _ in range(200):
    v = rv()
    P = decompress(v.to_bytes(32, 'little'))
    out.append(f"decomp {le(v)} " + ("none" if P is None else le(P[0]) + le(P[1])))
for _ in range(60):
    k, u = rv(), rv()
    out.append(f"x25519 {le(k)} {le(u)} {x25519(k.to_bytes(32, 'little'), u.to_bytes(32, 'little'))}")
for i in range(40):
    seed = rv().to_bytes(32, 'little'); msg = bytes(rnd.randrange(256) for _ in range(rnd.choice([0, 1, 31, 32, 63, 64, 65, 111, 112, 127, 128, 129, 200])))
    out.append(f"edsign {seed.hex()} {msg.hex() or '-'} {ed_sign(seed, msg)}")
    ctx = bytes(rnd.randrange(256) for _ in range(rnd.choice([0, 1, 17, 254, 255])))
    ph = H(msg)
    dom = b"SigEd25519 no Ed25519 collisions" + bytes([1, len(ctx)]) + ctx
    out.append(f"edsignph {seed.hex()} {ph.hex()} {ctx.hex() or '-'} {ed_sign(seed, ph, dom)}")
# RFC 7748 section 5.2 vectors
out.append("x25519 a546e36bf0527c9d3b16154b82465edd62144c0ac1fc5a18506a2244ba449ac4 e6db6867583030db3594c1a424b15f7c726624ec26b3353b10a903a6d0ab1c4c c3da55379de9c6908e94ea4df28d084f32eccf03491c71f754b4075577a28552")
out.append("x25519 4b66e9d4d1b4673c5ad22691957d6af5c11b6421e0ea01d42ca4169e7918ba0d e5210f12786811d3f4b7959d0538ae2c31dbe7106fc03c3efc4cd549c715a493 95cbde9476e8907d7aade45cb4b873f88b595a68799fa152e6f8f7647aac7957")
out.append("x25519iter 1 422c8e7a6227d7bca1350b3e2bb7279f7897b87bb6854b783c60e80311ae3079")
out.append("x25519iter 1000 684cf59ba83309552800ef566f2f4d3c1c3887c49360e3875f2eb94d99532c51")
# RFC 8032 section 7.3 Ed25519ph test vector (message "abc")
out.append("edsignph 833fe62409237b9d62ec77587520911e9a759cec1d19755b7da901b96dca3d42 " + hashlib.sha512(b"abc").hexdigest() + " - ec172b93ad5e563bf4932c70e1245034c35467ef2efd4d64ebf819683467e2bf98a70222f0b8121aa9d30f813d683f809e462b469c7ff87639499bb94e6dae4131f85042463c2a355a2003d062adf5aaa10b8c61e636062aaad11c2a26083406")
open('/verif/vectors/pyref.txt', 'w').write('\n'.join(out) + '\n')
print(len(out), 'lines')
