//! C14: erasure of secret material - freed heap contents, storage after drop, explicit zeroize.
use super::helpers::*;
use super::Out;
use crate::alloc::record;
use curve25519_dalek::edwards::{CompressedEdwardsY, EdwardsPoint};
use curve25519_dalek::montgomery::MontgomeryPoint;
use curve25519_dalek::ristretto::{CompressedRistretto, RistrettoPoint};
use curve25519_dalek::scalar::Scalar;
use curve25519_dalek::traits::{Identity, MultiscalarMul};
use std::mem::MaybeUninit;
use zeroize::Zeroize;

fn force(kind: u8) {
    #[cfg(curve25519_dalek_verif)]
    curve25519_dalek::verif_hooks::force_backend(kind);
    let _ = kind;
}

/// A leak of secret A shows up as a window of A's secret-derived strings that is present in the blocks
/// freed while A was processed and ABSENT from the blocks freed while an independent secret B was
/// processed with the same public inputs. (A window present in both logs is public data that merely
/// looks like a structured secret - e.g. the limb 2^51-19 = ed ff ff ff ff ff 07 00 occurs both in
/// field elements of public tables and in the generator's "all-ones limb" secrets.)
fn leak_found(own: &[Vec<u8>], other: &[Vec<u8>], needles: &[Vec<u8>]) -> bool {
    use std::collections::HashSet;
    let mut set: HashSet<[u8; 8]> = HashSet::new();
    for n in needles {
        for w in n.windows(8) {
            let distinct: HashSet<u8> = w.iter().copied().collect();
            if distinct.len() >= 4 {
                set.insert(w.try_into().unwrap());
            }
        }
    }
    if set.is_empty() {
        return false;
    }
    let mut hits: HashSet<[u8; 8]> = HashSet::new();
    for b in own {
        for w in b.windows(8) {
            let k: [u8; 8] = w.try_into().unwrap();
            if set.contains(&k) {
                hits.insert(k);
            }
        }
    }
    if hits.is_empty() {
        return false;
    }
    for b in other {
        for w in b.windows(8) {
            let k: [u8; 8] = w.try_into().unwrap();
            hits.remove(&k);
        }
    }
    !hits.is_empty()
}

/// does any 8-byte window of `needle` (ignoring all-zero / all-0xff... trivial windows) occur in a block
fn window_found(blocks: &[Vec<u8>], needles: &[Vec<u8>]) -> bool {
    use std::collections::HashSet;
    let mut set: HashSet<[u8; 8]> = HashSet::new();
    for n in needles {
        for w in n.windows(8) {
            let distinct: HashSet<u8> = w.iter().copied().collect();
            if distinct.len() >= 4 {
                set.insert(w.try_into().unwrap());
            }
        }
    }
    if set.is_empty() {
        return false;
    }
    for b in blocks {
        for w in b.windows(8) {
            let k: [u8; 8] = w.try_into().unwrap();
            if set.contains(&k) {
                return true;
            }
        }
    }
    false
}

/// signed radix-16 digits of a scalar (the heap copy the constant-time Straus keeps), recomputed here
fn radix16(b: &[u8; 32]) -> Vec<u8> {
    let mut out = [0i8; 64];
    for i in 0..32 {
        out[2 * i] = (b[i] & 15) as i8;
        out[2 * i + 1] = (b[i] >> 4) as i8;
    }
    for i in 0..63 {
        let carry = (out[i] + 8) >> 4;
        out[i] -= carry << 4;
        out[i + 1] += carry;
    }
    out.iter().map(|x| *x as u8).collect()
}

fn scalars(b: &[u8]) -> Option<Vec<Scalar>> {
    if b.len() % 32 != 0 {
        return None;
    }
    b.chunks(32).map(|c| Option::<Scalar>::from(Scalar::from_canonical_bytes(c.try_into().unwrap()))).collect()
}

fn drop_probe<T>(value: T, needles: &[Vec<u8>], use_it: impl FnOnce(&T)) -> (bool, bool, usize) {
    let mut slot = MaybeUninit::<T>::uninit();
    slot.write(value);
    unsafe {
        use_it(&*slot.as_ptr());
        std::ptr::drop_in_place(slot.as_mut_ptr());
        let bytes = std::slice::from_raw_parts(slot.as_ptr() as *const u8, std::mem::size_of::<T>()).to_vec();
        (window_found(&[bytes.clone()], needles), bytes.iter().all(|x| *x == 0), bytes.len())
    }
}

/// The same on the heap: the value lives in a Box whose storage goes back to the allocator right after the
/// drop. Nothing reads the storage afterwards from the compiler's point of view, so an erasure written as an
/// ordinary store (instead of zeroize's volatile write) is removed by dead-store elimination in optimised
/// builds - the freed block, snapshotted by the allocator hook, then still holds the secret.
#[inline(never)]
fn drop_probe_heap<T>(value: T, needles: &[Vec<u8>], use_it: impl FnOnce(&T)) -> (bool, bool, usize) {
    let b = Box::new(value);
    use_it(&b);
    let (_, blocks, _) = record(move || drop(b));
    let mine: Vec<Vec<u8>> = blocks.into_iter().filter(|x| x.len() == std::mem::size_of::<T>()).collect();
    (window_found(&mine, needles), mine.iter().all(|b| b.iter().all(|x| *x == 0)), std::mem::size_of::<T>())
}

pub fn exec(op: &str, a: &[Vec<u8>]) -> Out {
    macro_rules! need {
        ($e:expr) => {
            match $e {
                Some(x) => x,
                None => return Out::Rej,
            }
        };
    }
    match op {
        // [kind (0 Edwards, 1 Ristretto), forced backend, scalars A, scalars B, points]
        "mem.msm" => {
            let (sa, sb) = (need!(scalars(&a[2])), need!(scalars(&a[3])));
            if sa.len() != sb.len() || a[4].len() != 32 * sa.len() {
                return Out::Rej;
            }
            force(a[1][0]);
            let mut res = vec![];
            let mut logs = vec![];
            for s in [&sa, &sb] {
                if a[0][0] == 0 {
                    let mut pts = vec![];
                    for c in a[4].chunks(32) {
                        pts.push(need!(CompressedEdwardsY(c.try_into().unwrap()).decompress()));
                    }
                    let (r, blocks, ovf) = record(|| EdwardsPoint::multiscalar_mul(s.iter(), pts.iter()));
                    if ovf {
                        force(0);
                        return Out::Rej;
                    }
                    res.push(r.compress().to_bytes());
                    logs.push(blocks);
                } else {
                    let mut pts = vec![];
                    for c in a[4].chunks(32) {
                        pts.push(need!(CompressedRistretto(c.try_into().unwrap()).decompress()));
                    }
                    let (r, blocks, ovf) = record(|| RistrettoPoint::multiscalar_mul(s.iter(), pts.iter()));
                    if ovf {
                        force(0);
                        return Out::Rej;
                    }
                    res.push(r.compress().to_bytes());
                    logs.push(blocks);
                }
            }
            force(0);
            let needles = |s: &Vec<Scalar>| -> Vec<Vec<u8>> {
                let mut v = vec![];
                for x in s {
                    v.push(x.to_bytes().to_vec());
                    v.push(radix16(&x.to_bytes()));
                }
                v
            };
            let equal = logs[0] == logs[1];
            let mut o = vec![equal as u8, leak_found(&logs[0], &logs[1], &needles(&sa)) as u8, leak_found(&logs[1], &logs[0], &needles(&sb)) as u8];
            o.extend_from_slice(&(logs[0].len() as u32).to_le_bytes());
            o.extend_from_slice(&(logs[0].iter().map(|b| b.len()).sum::<usize>() as u32).to_le_bytes());
            Out::Ok(o)
        }
        // [scalars A (non-zero), scalars B (non-zero)]
        "mem.batch_invert" => {
            let (sa, sb) = (need!(scalars(&a[0])), need!(scalars(&a[1])));
            if sa.len() != sb.len() || sa.iter().chain(sb.iter()).any(|s| *s == Scalar::ZERO) {
                return Out::Rej;
            }
            let mut logs = vec![];
            let mut all_needles = vec![];
            for s in [&sa, &sb] {
                let mut v = s.clone();
                let (ret, blocks, ovf) = record(|| Scalar::batch_invert(&mut v));
                if ovf {
                    return Out::Rej;
                }
                let mut needles: Vec<Vec<u8>> = s.iter().map(|x| x.to_bytes().to_vec()).collect();
                needles.extend(v.iter().map(|x| x.to_bytes().to_vec()));
                needles.push(ret.to_bytes().to_vec());
                // prefix products (what the scratch vector holds, up to the Montgomery factor)
                let mut acc = Scalar::ONE;
                for x in s.iter() {
                    acc *= x;
                    needles.push(acc.to_bytes().to_vec());
                }
                all_needles.push(needles);
                logs.push(blocks);
            }
            let found = [leak_found(&logs[0], &logs[1], &all_needles[0]), leak_found(&logs[1], &logs[0], &all_needles[1])];
            let mut o = vec![(logs[0] == logs[1]) as u8, found[0] as u8, found[1] as u8];
            o.extend_from_slice(&(logs[0].len() as u32).to_le_bytes());
            o.extend_from_slice(&(logs[0].iter().map(|b| b.len()).sum::<usize>() as u32).to_le_bytes());
            Out::Ok(o)
        }
        // [type, 32 secret bytes, 32 peer/aux bytes] -> [secret window found in the storage after drop, all-zero, size]
        "mem.drop" => {
            let k = need!(b32(&a[1]));
            let aux = need!(b32(&a[2]));
            let (found, zero, size) = match a[0][0] {
                0 => {
                    use ed25519_dalek::Signer;
                    let sk = ed25519_dalek::SigningKey::from_bytes(&k);
                    let exp = ed25519_dalek::hazmat::ExpandedSecretKey::from(&k);
                    let needles = vec![k.to_vec(), sk.to_scalar_bytes().to_vec(), exp.scalar.to_bytes().to_vec(), exp.hash_prefix.to_vec()];
                    drop_probe(sk, &needles, |s| {
                        let _ = s.sign(&aux);
                    })
                }
                1 => {
                    let exp = ed25519_dalek::hazmat::ExpandedSecretKey::from(&k);
                    let needles = vec![exp.scalar.to_bytes().to_vec(), exp.hash_prefix.to_vec()];
                    drop_probe(exp, &needles, |e| {
                        let vk = ed25519_dalek::VerifyingKey::from(e);
                        let _ = ed25519_dalek::hazmat::raw_sign::<sha2::Sha512>(e, &aux, &vk);
                    })
                }
                2 => {
                    let s = x25519_dalek::EphemeralSecret::random_from_rng(ByteRng::new(&k));
                    drop_probe(s, &[k.to_vec()], |s| {
                        let _ = x25519_dalek::PublicKey::from(s);
                    })
                }
                3 => {
                    let s = x25519_dalek::ReusableSecret::random_from_rng(ByteRng::new(&k));
                    drop_probe(s, &[k.to_vec()], |s| {
                        let _ = s.diffie_hellman(&x25519_dalek::PublicKey::from(aux));
                    })
                }
                4 => {
                    let s = x25519_dalek::StaticSecret::from(k);
                    drop_probe(s, &[k.to_vec()], |s| {
                        let _ = s.diffie_hellman(&x25519_dalek::PublicKey::from(aux));
                    })
                }
                5 => {
                    let s = x25519_dalek::StaticSecret::from(k);
                    let shared = s.diffie_hellman(&x25519_dalek::PublicKey::from(aux));
                    let needle = shared.to_bytes().to_vec();
                    drop_probe(shared, &[needle], |s| {
                        let _ = s.was_contributory();
                    })
                }
                6 => {
                    use ed25519_dalek::Signer;
                    let sk = ed25519_dalek::SigningKey::from_bytes(&k);
                    let exp = ed25519_dalek::hazmat::ExpandedSecretKey::from(&k);
                    let needles = vec![k.to_vec(), sk.to_scalar_bytes().to_vec(), exp.scalar.to_bytes().to_vec(), exp.hash_prefix.to_vec()];
                    drop_probe_heap(sk, &needles, |s| {
                        let _ = s.sign(&aux);
                    })
                }
                7 => {
                    let exp = ed25519_dalek::hazmat::ExpandedSecretKey::from(&k);
                    let needles = vec![exp.scalar.to_bytes().to_vec(), exp.hash_prefix.to_vec()];
                    drop_probe_heap(exp, &needles, |e| {
                        let vk = ed25519_dalek::VerifyingKey::from(e);
                        let _ = ed25519_dalek::hazmat::raw_sign::<sha2::Sha512>(e, &aux, &vk);
                    })
                }
                8 => {
                    let s = x25519_dalek::EphemeralSecret::random_from_rng(ByteRng::new(&k));
                    drop_probe_heap(s, &[k.to_vec()], |s| {
                        let _ = x25519_dalek::PublicKey::from(s);
                    })
                }
                9 => {
                    let s = x25519_dalek::ReusableSecret::random_from_rng(ByteRng::new(&k));
                    drop_probe_heap(s, &[k.to_vec()], |s| {
                        let _ = s.diffie_hellman(&x25519_dalek::PublicKey::from(aux));
                    })
                }
                10 => {
                    let s = x25519_dalek::StaticSecret::from(k);
                    drop_probe_heap(s, &[k.to_vec()], |s| {
                        let _ = s.diffie_hellman(&x25519_dalek::PublicKey::from(aux));
                    })
                }
                11 => {
                    let s = x25519_dalek::StaticSecret::from(k);
                    let shared = s.diffie_hellman(&x25519_dalek::PublicKey::from(aux));
                    let needle = shared.to_bytes().to_vec();
                    drop_probe_heap(shared, &[needle], |s| {
                        let _ = s.was_contributory();
                    })
                }
                _ => return Out::Rej,
            };
            let mut o = vec![found as u8, zero as u8];
            o.extend_from_slice(&(size as u16).to_le_bytes());
            Out::Ok(o)
        }
        // [type, 32 bytes] -> encoding after zeroize()
        "mem.zeroize" => {
            let b = need!(b32(&a[1]));
            // the storage itself, not only what the accessors show (a point whose T is left behind still
            // compresses to the identity and still compares equal to it)
            fn raw<T>(t: &T) -> Vec<u8> {
                unsafe { std::slice::from_raw_parts(t as *const T as *const u8, std::mem::size_of::<T>()).to_vec() }
            }
            match a[0][0] {
                0 => {
                    let mut s = Scalar::from_bytes_mod_order(b);
                    s.zeroize();
                    Out::Ok(s.to_bytes().to_vec())
                }
                1 => {
                    let mut p = need!(CompressedEdwardsY(b).decompress());
                    p.zeroize();
                    let mut o = p.compress().to_bytes().to_vec();
                    o.push((p == EdwardsPoint::identity()) as u8);
                    o.push((raw(&p) == raw(&EdwardsPoint::identity())) as u8);
                    Out::Ok(o)
                }
                2 => {
                    let mut c = CompressedEdwardsY(b);
                    c.zeroize();
                    Out::Ok(c.to_bytes().to_vec())
                }
                3 => {
                    let mut p = need!(CompressedRistretto(b).decompress());
                    p.zeroize();
                    let mut o = p.compress().to_bytes().to_vec();
                    o.push((p == RistrettoPoint::identity()) as u8);
                    o.push((raw(&p) == raw(&RistrettoPoint::identity())) as u8);
                    Out::Ok(o)
                }
                4 => {
                    let mut c = CompressedRistretto(b);
                    c.zeroize();
                    Out::Ok(c.to_bytes().to_vec())
                }
                5 => {
                    let mut m = MontgomeryPoint(b);
                    m.zeroize();
                    Out::Ok(m.to_bytes().to_vec())
                }
                6 => {
                    let mut k = x25519_dalek::StaticSecret::from(b);
                    k.zeroize();
                    let mut o = k.to_bytes().to_vec();
                    o.push(raw(&k).iter().all(|x| *x == 0) as u8);
                    Out::Ok(o)
                }
                7 => {
                    let mut k = x25519_dalek::EphemeralSecret::random_from_rng(ByteRng::new(&b));
                    k.zeroize();
                    Out::Ok(raw(&k))
                }
                8 => {
                    let mut k = x25519_dalek::ReusableSecret::random_from_rng(ByteRng::new(&b));
                    k.zeroize();
                    Out::Ok(raw(&k))
                }
                9 => {
                    let k = x25519_dalek::StaticSecret::from(b);
                    let mut sh = k.diffie_hellman(&x25519_dalek::PublicKey::from([9u8; 32]));
                    sh.zeroize();
                    Out::Ok(raw(&sh))
                }
                10 => {
                    use group::cofactor::CofactorGroup;
                    let p = need!(CompressedEdwardsY(b).decompress());
                    let mut s: curve25519_dalek::edwards::SubgroupPoint = CofactorGroup::clear_cofactor(&p);
                    s.zeroize();
                    let id = <curve25519_dalek::edwards::SubgroupPoint as group::Group>::identity();
                    Out::Ok(vec![(s == id) as u8, (raw(&s) == raw(&id)) as u8])
                }
                11 => {
                    let mut p = x25519_dalek::PublicKey::from(b);
                    p.zeroize();
                    Out::Ok(p.to_bytes().to_vec())
                }
                12 => {
                    let mut s = Scalar::from_bytes_mod_order(b);
                    s.zeroize();
                    Out::Ok(raw(&s))
                }
                _ => Out::Rej,
            }
        }
        _ => Out::Unknown,
    }
}
