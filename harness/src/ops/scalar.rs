//! Scalar operations (public API only).
use super::helpers::*;
use super::Out;
use curve25519_dalek::scalar::{clamp_integer, Scalar};
use sha2::Sha512;
use subtle::{Choice, ConditionallySelectable, ConstantTimeEq};

/// canonical bytes -> Scalar (the only way the non-legacy API can build one from bytes)
pub fn sc(b: &[u8]) -> Option<Scalar> {
    Option::from(Scalar::from_canonical_bytes(b32(b)?))
}

pub fn exec(op: &str, a: &[Vec<u8>]) -> Out {
    macro_rules! need {
        ($e:expr) => {
            match $e {
                Some(x) => x,
                None => return Out::Rej,
            }
        };
    }
    match op {
        "sc.reduce32" => Out::Ok(Scalar::from_bytes_mod_order(need!(b32(&a[0]))).to_bytes().to_vec()),
        "sc.reduce64" => Out::Ok(Scalar::from_bytes_mod_order_wide(&need!(b64(&a[0]))).to_bytes().to_vec()),
        "sc.canonical" => {
            let s = need!(sc(&a[0]));
            let mut o = s.to_bytes().to_vec();
            o.extend_from_slice(s.as_bytes());
            Out::Ok(o)
        }
        "sc.hash_sha512" => {
            let r1 = Scalar::hash_from_bytes::<Sha512>(&a[0]);
            let mut h = <Sha512 as digest::Digest>::new();
            // split the input across two updates
            let mid = a[0].len() / 2;
            digest::Digest::update(&mut h, &a[0][..mid]);
            digest::Digest::update(&mut h, &a[0][mid..]);
            let r2 = Scalar::from_hash(h);
            let mut o = r1.to_bytes().to_vec();
            o.extend_from_slice(&r2.to_bytes());
            Out::Ok(o)
        }
        "sc.hash_pass" => {
            let r1 = Scalar::hash_from_bytes::<Passthrough>(&a[0]);
            let mut h = Passthrough::default();
            digest::Update::update(&mut h, &a[0]);
            let r2 = Scalar::from_hash(h);
            let mut o = r1.to_bytes().to_vec();
            o.extend_from_slice(&r2.to_bytes());
            Out::Ok(o)
        }
        "sc.random" => Out::Ok(Scalar::random(&mut ByteRng::new(&a[0])).to_bytes().to_vec()),
        "sc.from_uint" => {
            // a[0] = width in bytes (1,2,4,8,16), a[1] = little-endian value
            let w = a[0][0] as usize;
            let mut v = [0u8; 16];
            v[..w].copy_from_slice(&a[1][..w]);
            let s = match w {
                1 => Scalar::from(v[0]),
                2 => Scalar::from(u16::from_le_bytes([v[0], v[1]])),
                4 => Scalar::from(u32::from_le_bytes(v[..4].try_into().unwrap())),
                8 => Scalar::from(u64::from_le_bytes(v[..8].try_into().unwrap())),
                16 => Scalar::from(u128::from_le_bytes(v)),
                _ => return Out::Rej,
            };
            Out::Ok(s.to_bytes().to_vec())
        }
        "sc.add" | "sc.sub" | "sc.mul" => {
            let x = need!(sc(&a[0]));
            let y = need!(sc(&a[1]));
            // every operator form: &a op &b, a op b, a op &b, &a op b, op-assign by ref, by value
            let rs: [Scalar; 6] = match op {
                "sc.add" => {
                    let mut t = x;
                    t += &y;
                    let mut u = x;
                    u += y;
                    [&x + &y, x + y, x + &y, &x + y, t, u]
                }
                "sc.sub" => {
                    let mut t = x;
                    t -= &y;
                    let mut u = x;
                    u -= y;
                    [&x - &y, x - y, x - &y, &x - y, t, u]
                }
                _ => {
                    let mut t = x;
                    t *= &y;
                    let mut u = x;
                    u *= y;
                    [&x * &y, x * y, x * &y, &x * y, t, u]
                }
            };
            let mut o = vec![];
            for r in rs.iter() {
                o.extend_from_slice(&r.to_bytes());
            }
            Out::Ok(o)
        }
        "sc.neg" => {
            let x = need!(sc(&a[0]));
            let mut o = (-&x).to_bytes().to_vec();
            o.extend_from_slice(&(-x).to_bytes());
            Out::Ok(o)
        }
        "sc.sum" | "sc.product" => {
            let mut v = vec![];
            for x in a {
                v.push(need!(sc(x)));
            }
            let (r1, r2): (Scalar, Scalar) = if op == "sc.sum" {
                (v.iter().sum(), v.iter().copied().sum())
            } else {
                (v.iter().product(), v.iter().copied().product())
            };
            let mut o = r1.to_bytes().to_vec();
            o.extend_from_slice(&r2.to_bytes());
            Out::Ok(o)
        }
        "sc.invert" => {
            let x = need!(sc(&a[0]));
            Out::Ok(x.invert().to_bytes().to_vec())
        }
        "sc.batch_invert" => {
            let mut v = vec![];
            for x in a {
                v.push(need!(sc(x)));
            }
            let ret = Scalar::batch_invert(&mut v);
            let mut o = vec![];
            for x in &v {
                o.extend_from_slice(&x.to_bytes());
            }
            o.extend_from_slice(&ret.to_bytes());
            Out::Ok(o)
        }
        "sc.eq" => {
            let x = need!(sc(&a[0]));
            let y = need!(sc(&a[1]));
            Out::Ok(vec![x.ct_eq(&y).unwrap_u8(), (x == y) as u8])
        }
        "sc.cond_select" => {
            let x = need!(sc(&a[0]));
            let y = need!(sc(&a[1]));
            let c = a[2][0] & 1;
            let r = Scalar::conditional_select(&x, &y, Choice::from(c));
            let mut t = x;
            t.conditional_assign(&y, Choice::from(c));
            let (mut s1, mut s2) = (x, y);
            Scalar::conditional_swap(&mut s1, &mut s2, Choice::from(c));
            let mut o = r.to_bytes().to_vec();
            o.extend_from_slice(&t.to_bytes());
            o.extend_from_slice(&s1.to_bytes());
            o.extend_from_slice(&s2.to_bytes());
            Out::Ok(o)
        }
        "sc.consts" => {
            let mut o = Scalar::ZERO.to_bytes().to_vec();
            o.extend_from_slice(&Scalar::ONE.to_bytes());
            o.extend_from_slice(&Scalar::default().to_bytes());
            Out::Ok(o)
        }
        "sc.from_bits" => {
            #[allow(deprecated)]
            let s = Scalar::from_bits(need!(b32(&a[0])));
            Out::Ok(s.to_bytes().to_vec())
        }
        "sc.clamp" => Out::Ok(clamp_integer(need!(b32(&a[0]))).to_vec()),
        _ => Out::Unknown,
    }
}
