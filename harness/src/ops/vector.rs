//! 4-lane vector field types through the guarded hook module.
//! AVX2 operand: 160 bytes = raw lanes l[lane][limb] as LE u32 (no reduction), or 128 bytes = four
//! 32-byte field encodings passed through `new`. IFMA operand: 160 bytes = l[lane][limb] as LE u64
//! (5 limbs), or 128 bytes via `new`.
//! Output: raw result lanes followed by 4 x 32 bytes `split()[i].as_bytes()`.
use super::Out;

#[cfg(not(any(curve25519_dalek_backend = "serial", curve25519_dalek_backend = "fiat")))]
pub mod avx2 {
    use super::Out;
    use curve25519_dalek::verif_hooks::avx2::V4;
    use curve25519_dalek::verif_hooks::Fe;

    pub fn operand(x: &[u8]) -> Option<V4> {
        if x.len() == 160 {
            let mut l = [[0u32; 10]; 4];
            for i in 0..4 {
                for j in 0..10 {
                    let k = 4 * (10 * i + j);
                    l[i][j] = u32::from_le_bytes(x[k..k + 4].try_into().unwrap());
                }
            }
            Some(V4::from_lanes(&l))
        } else if x.len() == 128 {
            let f: Vec<Fe> = (0..4).map(|i| Fe::from_bytes(x[32 * i..32 * i + 32].try_into().unwrap())).collect();
            Some(V4::new(&f[0], &f[1], &f[2], &f[3]))
        } else {
            None
        }
    }
    pub fn pack(v: &V4) -> Out {
        let l = v.lanes();
        let mut o = vec![];
        for i in 0..4 {
            for j in 0..10 {
                o.extend_from_slice(&l[i][j].to_le_bytes());
            }
        }
        for f in v.split().iter() {
            o.extend_from_slice(&f.as_bytes());
        }
        Out::Ok(o)
    }
    pub fn exec(op: &str, a: &[Vec<u8>]) -> Out {
        if !std::is_x86_feature_detected!("avx2") {
            return Out::Unknown;
        }
        macro_rules! v {
            ($i:expr) => {
                match a.get($i).and_then(|x| operand(x)) {
                    Some(x) => x,
                    None => return Out::Rej,
                }
            };
        }
        match op {
            "v2.id" => pack(&v!(0)),
            // new() from four serial field elements given as 32 bytes or as raw (unreduced) limbs
            "v2.new" => {
                let mut f = vec![];
                for i in 0..4 {
                    match a.get(i).and_then(|x| crate::ops::field::operand(x)) {
                        Some(x) => f.push(x),
                        None => return Out::Rej,
                    }
                }
                pack(&V4::new(&f[0], &f[1], &f[2], &f[3]))
            }
            "v2.splat_raw" => match a.get(0).and_then(|x| crate::ops::field::operand(x)) {
                Some(x) => pack(&V4::splat(&x)),
                None => Out::Rej,
            },
            "v2.splat" => {
                if a[0].len() != 32 {
                    return Out::Rej;
                }
                pack(&V4::splat(&Fe::from_bytes(a[0][..].try_into().unwrap())))
            }
            "v2.shuffle" => pack(&v!(0).shuffle(a[1][0])),
            "v2.blend" => pack(&v!(0).blend(&v!(1), a[2][0])),
            "v2.negate_lazy" => pack(&v!(0).negate_lazy()),
            "v2.diff_sum" => pack(&v!(0).diff_sum()),
            "v2.reduce" => pack(&v!(0).reduce()),
            "v2.sqnd" => pack(&v!(0).square_and_negate_d()),
            "v2.neg" => pack(&v!(0).neg()),
            "v2.add" => pack(&v!(0).add(&v!(1))),
            "v2.mul_consts" => {
                let c: Vec<u32> = a[1].chunks(4).map(|c| u32::from_le_bytes(c.try_into().unwrap())).collect();
                if c.len() != 4 {
                    return Out::Rej;
                }
                pack(&v!(0).mul_consts((c[0], c[1], c[2], c[3])))
            }
            "v2.mul" => pack(&v!(0).mul(&v!(1))),
            "v2.cond" => {
                let (x, y) = (v!(0), v!(1));
                let c = a[2][0] & 1;
                let r1 = V4::conditional_select(&x, &y, c);
                let r2 = x.conditional_assign(&y, c);
                if r1.lanes() != r2.lanes() {
                    return Out::Ok(b"select/assign disagree".to_vec());
                }
                pack(&r1)
            }
            _ => Out::Unknown,
        }
    }
}

#[cfg(curve25519_dalek_backend = "unstable_avx512")]
pub mod ifma {
    use super::Out;
    use curve25519_dalek::verif_hooks::ifma::{R4, U4};
    use curve25519_dalek::verif_hooks::Fe;

    fn lanes_of(x: &[u8]) -> Option<[[u64; 5]; 4]> {
        if x.len() != 160 {
            return None;
        }
        let mut l = [[0u64; 5]; 4];
        for i in 0..4 {
            for j in 0..5 {
                let k = 8 * (5 * i + j);
                l[i][j] = u64::from_le_bytes(x[k..k + 8].try_into().unwrap());
            }
        }
        Some(l)
    }
    pub fn unreduced(x: &[u8]) -> Option<U4> {
        if x.len() == 128 {
            let f: Vec<Fe> = (0..4).map(|i| Fe::from_bytes(x[32 * i..32 * i + 32].try_into().unwrap())).collect();
            return Some(U4::new(&f[0], &f[1], &f[2], &f[3]));
        }
        lanes_of(x).map(|l| U4::from_lanes(&l))
    }
    pub fn reduced(x: &[u8]) -> Option<R4> {
        if x.len() == 128 {
            return unreduced(x).map(|u| u.reduce());
        }
        lanes_of(x).map(|l| R4::from_lanes(&l))
    }
    fn pack_lanes(l: &[[u64; 5]; 4], split: [Fe; 4]) -> Out {
        let mut o = vec![];
        for i in 0..4 {
            for j in 0..5 {
                o.extend_from_slice(&l[i][j].to_le_bytes());
            }
        }
        for f in split.iter() {
            o.extend_from_slice(&f.as_bytes());
        }
        Out::Ok(o)
    }
    pub fn pack_u(v: &U4) -> Out {
        pack_lanes(&v.lanes(), v.split())
    }
    pub fn pack_r(v: &R4) -> Out {
        pack_lanes(&v.lanes(), v.unreduced().split())
    }
    pub fn exec(op: &str, a: &[Vec<u8>]) -> Out {
        if !(std::is_x86_feature_detected!("avx512ifma") && std::is_x86_feature_detected!("avx512vl")) {
            return Out::Unknown;
        }
        macro_rules! u {
            ($i:expr) => {
                match a.get($i).and_then(|x| unreduced(x)) {
                    Some(x) => x,
                    None => return Out::Rej,
                }
            };
        }
        macro_rules! r {
            ($i:expr) => {
                match a.get($i).and_then(|x| reduced(x)) {
                    Some(x) => x,
                    None => return Out::Rej,
                }
            };
        }
        match op {
            "vi.id" => pack_u(&u!(0)),
            "vi.new" => {
                let mut f = vec![];
                for i in 0..4 {
                    match a.get(i).and_then(|x| crate::ops::field::operand(x)) {
                        Some(x) => f.push(x),
                        None => return Out::Rej,
                    }
                }
                // new() stores the limbs as they are; its value must survive the reducing conversion too
                let u = U4::new(&f[0], &f[1], &f[2], &f[3]);
                let r = u.reduce();
                if u.split().iter().zip(r.unreduced().split().iter()).any(|(x, y)| x.as_bytes() != y.as_bytes()) {
                    return Out::Ok(b"reduce changed the value".to_vec());
                }
                pack_u(&u)
            }
            "vi.reduce" => pack_r(&u!(0).reduce()),
            "vi.diff_sum" => pack_u(&u!(0).diff_sum()),
            "vi.negate_lazy" => pack_u(&u!(0).negate_lazy()),
            "vi.shuffle" => pack_u(&u!(0).shuffle(a[1][0])),
            "vi.blend" => pack_u(&u!(0).blend(&u!(1), a[2][0])),
            "vi.add" => pack_u(&u!(0).add(&u!(1))),
            "vi.rshuffle" => pack_r(&r!(0).shuffle(a[1][0])),
            "vi.rblend" => pack_r(&r!(0).blend(&r!(1), a[2][0])),
            "vi.square" => pack_u(&r!(0).square()),
            "vi.mul" => pack_u(&r!(0).mul(&r!(1))),
            "vi.mul_consts" => {
                let c: Vec<u32> = a[1].chunks(4).map(|c| u32::from_le_bytes(c.try_into().unwrap())).collect();
                if c.len() != 4 {
                    return Out::Rej;
                }
                pack_u(&r!(0).mul_consts((c[0], c[1], c[2], c[3])))
            }
            "vi.neg" => pack_r(&r!(0).neg()),
            "vi.cond" => {
                let (x, y) = (r!(0), r!(1));
                let c = a[2][0] & 1;
                let r1 = R4::conditional_select(&x, &y, c);
                let r2 = x.conditional_assign(&y, c);
                if r1.lanes() != r2.lanes() {
                    return Out::Ok(b"select/assign disagree".to_vec());
                }
                pack_r(&r1)
            }
            _ => Out::Unknown,
        }
    }
}

pub fn exec(op: &str, a: &[Vec<u8>]) -> Out {
    #[cfg(not(any(curve25519_dalek_backend = "serial", curve25519_dalek_backend = "fiat")))]
    {
        if op.starts_with("v2.") {
            return avx2::exec(op, a);
        }
    }
    #[cfg(curve25519_dalek_backend = "unstable_avx512")]
    {
        if op.starts_with("vi.") {
            return ifma::exec(op, a);
        }
    }
    let _ = (op, a);
    Out::Unknown
}
