//! Untrusted-input entry points not covered elsewhere: slice decoders of every length, the
//! non-spec hash-to-curve map, long contexts (release builds).
use super::helpers::*;
use super::Out;
use curve25519_dalek::edwards::{CompressedEdwardsY, EdwardsPoint};
use curve25519_dalek::ristretto::CompressedRistretto;
use ed25519_dalek::hazmat::ExpandedSecretKey;
use ed25519_dalek::{Signature, SigningKey, VerifyingKey};
use sha2::{Digest, Sha512};

pub fn exec(op: &str, a: &[Vec<u8>]) -> Out {
    match op {
        // [bytes of any length] -> one byte per slice decoder (1 = Ok)
        "tot.slices" => {
            let b = &a[0][..];
            // an accepted slice must also decode to the value it spells: every decoded value is re-encoded
            let mut echo = true;
            if let Ok(x) = CompressedEdwardsY::from_slice(b) { echo &= x.as_bytes()[..] == *b; }
            if let Ok(x) = CompressedEdwardsY::try_from(b) { echo &= x.to_bytes()[..] == *b; }
            if let Ok(x) = CompressedRistretto::from_slice(b) { echo &= x.as_bytes()[..] == *b; }
            if let Ok(x) = CompressedRistretto::try_from(b) { echo &= x.to_bytes()[..] == *b; }
            if let Ok(x) = VerifyingKey::try_from(b) { echo &= x.as_bytes()[..] == *b; }
            if let Ok(x) = SigningKey::try_from(b) { echo &= x.to_bytes()[..] == *b; }
            if let Ok(x) = Signature::from_slice(b) { echo &= x.to_bytes()[..] == *b; }
            if let Ok(x) = Signature::try_from(b) { echo &= x.to_bytes()[..] == *b; }
            if let (Ok(x), Ok(y)) = (ExpandedSecretKey::from_slice(b), ExpandedSecretKey::try_from(b)) {
                echo &= x.scalar == y.scalar && x.hash_prefix == y.hash_prefix && x.hash_prefix[..] == b[32..];
            }
            let o = vec![
                echo as u8,
                CompressedEdwardsY::from_slice(b).is_ok() as u8,
                CompressedEdwardsY::try_from(b).is_ok() as u8,
                CompressedRistretto::from_slice(b).is_ok() as u8,
                CompressedRistretto::try_from(b).is_ok() as u8,
                VerifyingKey::try_from(b).is_ok() as u8,
                SigningKey::try_from(b).is_ok() as u8,
                ExpandedSecretKey::from_slice(b).is_ok() as u8,
                ExpandedSecretKey::try_from(b).is_ok() as u8,
                Signature::from_slice(b).is_ok() as u8,
                Signature::try_from(b).is_ok() as u8,
            ];
            Out::Ok(o)
        }
        // [bytes, kind] -> compress(nonspec_map_to_curve(bytes)); kind 0 SHA-512, 1 pass-through
        "tot.nonspec_map" => {
            let p = if a[1][0] & 1 == 0 { EdwardsPoint::nonspec_map_to_curve::<Sha512>(&a[0]) } else { EdwardsPoint::nonspec_map_to_curve::<Passthrough>(&a[0]) };
            Out::Ok(p.compress().to_bytes().to_vec())
        }
        // [pk, msg, sig, ctx (> 255 bytes)] release builds only: must not panic, must reject
        #[cfg(not(debug_assertions))]
        "tot.verify_longctx" => {
            let pk = match b32(&a[0]) { Some(x) => x, None => return Out::Rej };
            let sig = match b64(&a[2]) { Some(x) => x, None => return Out::Rej };
            let vk = match VerifyingKey::from_bytes(&pk) { Ok(v) => v, Err(_) => return Out::Ok(vec![0, 0, 0, 0]) };
            let s = Signature::from_bytes(&sig);
            let c = Some(&a[3][..]);
            let h = || Sha512::new().chain_update(&a[1]);
            Out::Ok(vec![
                vk.verify_prehashed(h(), c, &s).is_ok() as u8,
                vk.verify_prehashed_strict(h(), c, &s).is_ok() as u8,
                ed25519_dalek::hazmat::raw_verify_prehashed::<Sha512, Sha512>(&vk, h(), c, &s).is_ok() as u8,
                vk.with_context(&a[3]).is_ok() as u8,
            ])
        }
        // [A, R, S, msg]: hazmat::raw_verify with a caller-chosen context digest (pass-through): the challenge is
        // k = (R || A) mod l, so chosen (A, R) reach k = 0, 1, l-1 .. - values SHA-512 never produces
        "tot.verify_chosen_k" => {
            let pk = match b32(&a[0]) { Some(x) => x, None => return Out::Rej };
            let (r, s) = match (b32(&a[1]), b32(&a[2])) { (Some(r), Some(s)) => (r, s), _ => return Out::Rej };
            let vk = match VerifyingKey::from_bytes(&pk) { Ok(v) => v, Err(_) => return Out::Ok(vec![0]) };
            let mut sb = [0u8; 64];
            sb[..32].copy_from_slice(&r);
            sb[32..].copy_from_slice(&s);
            let sig = Signature::from_bytes(&sb);
            Out::Ok(vec![ed25519_dalek::hazmat::raw_verify::<Passthrough>(&vk, &a[3], &sig).is_ok() as u8])
        }
        _ => {
            let _ = Sha512::new();
            Out::Unknown
        }
    }
}
