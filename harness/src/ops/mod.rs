//! Executors: run the real code for a request, under catch_unwind.
use crate::req::{Req, Resp};
use std::panic::{catch_unwind, AssertUnwindSafe};
use std::sync::Once;

#[cfg(curve25519_dalek_verif)]
pub mod field;
#[cfg(curve25519_dalek_verif)]
pub mod consts;
pub mod eddsa;
pub mod edwards;
#[cfg(curve25519_dalek_verif)]
pub mod formulas;
pub mod group_ops;
pub mod helpers;
pub mod memory;
pub mod montgomery;
pub mod public_consts;
pub mod ristretto;
pub mod scalar;
pub mod scalarmul;
pub mod serde_ops;
pub mod totality;
#[cfg(curve25519_dalek_verif)]
pub mod vector;

/// What an executor returns before wrapping.
pub enum Out {
    Ok(Vec<u8>),
    Rej,
    /// this op name is not handled by this module / build
    Unknown,
}

thread_local! {
    static LAST_PANIC: std::cell::RefCell<String> = std::cell::RefCell::new(String::new());
}

fn install_hook() {
    static ONCE: Once = Once::new();
    ONCE.call_once(|| {
        std::panic::set_hook(Box::new(|info| {
            let loc = info.location().map(|l| format!("{}:{}", l.file(), l.line())).unwrap_or_default();
            let msg = if let Some(s) = info.payload().downcast_ref::<&str>() {
                s.to_string()
            } else if let Some(s) = info.payload().downcast_ref::<String>() {
                s.clone()
            } else {
                "?".to_string()
            };
            LAST_PANIC.with(|p| *p.borrow_mut() = format!("{} @ {}", msg, loc));
        }));
    });
}

fn dispatch(req: &Req) -> Out {
    let op = req.op.as_str();
    let a = &req.a;
    if op.starts_with("sc.") {
        return scalar::exec(op, a);
    }
    if op.starts_with("ed.") {
        return edwards::exec(op, a);
    }
    if op.starts_with("sm.") {
        return scalarmul::exec(op, a);
    }
    if op.starts_with("rs.") {
        return ristretto::exec(op, a);
    }
    if op.starts_with("mt.") || op.starts_with("x.") {
        return montgomery::exec(op, a);
    }
    if op.starts_with("sig.") {
        return eddsa::exec(op, a);
    }
    if op.starts_with("sd.") {
        return serde_ops::exec(op, a);
    }
    if op.starts_with("tot.") {
        return totality::exec(op, a);
    }
    if op.starts_with("gp.") {
        return group_ops::exec(op, a);
    }
    if op.starts_with("mem.") {
        return memory::exec(op, a);
    }
    if op.starts_with("kp.") {
        return public_consts::exec(op, a);
    }
    #[cfg(curve25519_dalek_verif)]
    {
        if op.starts_with("fe.") {
            return field::exec(op, a);
        }
        if op.starts_with("v2.") || op.starts_with("vi.") {
            return vector::exec(op, a);
        }
        if op.starts_with("fz.") {
            return formulas::exec(op, a);
        }
        if op.starts_with("k.") {
            return consts::exec(op, a);
        }
    }
    Out::Unknown
}

pub fn exec(req: &Req) -> Resp {
    install_hook();
    #[cfg(curve25519_dalek_verif)]
    curve25519_dalek::verif_hooks::monitor_reset_violation();
    let r = match catch_unwind(AssertUnwindSafe(|| dispatch(req))) {
        Ok(Out::Ok(b)) => Resp::Ok(b),
        Ok(Out::Rej) => Resp::Rej,
        Ok(Out::Unknown) => Resp::Unsup,
        Err(_) => Resp::Panic(LAST_PANIC.with(|p| p.borrow().clone())),
    };
    // Bound monitors of the vector field code (C11): a documented lane precondition violated
    // anywhere during this request is reported like a panic, whatever the functional result was.
    #[cfg(curve25519_dalek_verif)]
    {
        use curve25519_dalek::verif_hooks as h;
        if let Some((site, value)) = h::monitor_violation() {
            h::monitor_reset_violation();
            return Resp::Panic(format!("bound monitor: documented precondition of {} violated (limb value {})", h::SITE_NAMES[site], value));
        }
    }
    r
}

/// per-site monitor statistics since process start: (site name, calls, max even limb, max odd limb,
/// documented exclusive bounds) - reported in the evidence as "observed vs allowed"
pub fn monitor_report() -> serde_json::Value {
    #[cfg(curve25519_dalek_verif)]
    {
        use curve25519_dalek::verif_hooks as h;
        let st = h::monitor_stats();
        let mut v = vec![];
        for i in 0..h::NSITES {
            if st[i].0 > 0 {
                let (be, bo) = h::SITE_BOUNDS[i];
                v.push(serde_json::json!({
                    "site": h::SITE_NAMES[i], "calls": st[i].0,
                    "max_even_limb": st[i].1, "max_odd_limb": st[i].2,
                    "bound_even_exclusive": be, "bound_odd_exclusive": bo,
                    "headroom_used_even": (st[i].1 as f64) / (be as f64),
                    "headroom_used_odd": (st[i].2 as f64) / (bo as f64),
                }));
            }
        }
        return serde_json::Value::Array(v);
    }
    #[allow(unreachable_code)]
    serde_json::Value::Null
}
