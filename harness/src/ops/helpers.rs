//! Helpers shared by executors: a pass-through "digest" and a byte-fed RNG.
use digest::{FixedOutput, HashMarker, Output, OutputSizeUser, Reset, Update};
use rand_core::{CryptoRng, RngCore};

/// A `Digest<OutputSize = U64>` that outputs (the first 64 bytes of) its input, zero-padded.
/// Lets chosen 64-byte values reach every `*_from_hash` / `hash_from_bytes` entry point.
#[derive(Clone, Default)]
pub struct Passthrough {
    buf: Vec<u8>,
}
impl HashMarker for Passthrough {}
impl OutputSizeUser for Passthrough {
    type OutputSize = digest::consts::U64;
}
impl Update for Passthrough {
    fn update(&mut self, data: &[u8]) {
        self.buf.extend_from_slice(data);
    }
}
impl FixedOutput for Passthrough {
    fn finalize_into(self, out: &mut Output<Self>) {
        for (i, o) in out.iter_mut().enumerate() {
            *o = *self.buf.get(i).unwrap_or(&0);
        }
    }
}
impl Reset for Passthrough {
    fn reset(&mut self) {
        self.buf.clear();
    }
}
impl digest::FixedOutputReset for Passthrough {
    fn finalize_into_reset(&mut self, out: &mut Output<Self>) {
        for (i, o) in out.iter_mut().enumerate() {
            *o = *self.buf.get(i).unwrap_or(&0);
        }
        self.buf.clear();
    }
}

/// RNG that replays given bytes (cyclically; zero if empty).
pub struct ByteRng {
    pub data: Vec<u8>,
    pub pos: usize,
}
impl ByteRng {
    pub fn new(d: &[u8]) -> ByteRng {
        ByteRng { data: d.to_vec(), pos: 0 }
    }
}
impl RngCore for ByteRng {
    fn next_u32(&mut self) -> u32 {
        let mut b = [0u8; 4];
        self.fill_bytes(&mut b);
        u32::from_le_bytes(b)
    }
    fn next_u64(&mut self) -> u64 {
        let mut b = [0u8; 8];
        self.fill_bytes(&mut b);
        u64::from_le_bytes(b)
    }
    fn fill_bytes(&mut self, dest: &mut [u8]) {
        for d in dest.iter_mut() {
            if self.data.is_empty() {
                *d = 0;
            } else {
                *d = self.data[self.pos % self.data.len()];
                self.pos += 1;
            }
        }
    }
    fn try_fill_bytes(&mut self, dest: &mut [u8]) -> Result<(), rand_core::Error> {
        self.fill_bytes(dest);
        Ok(())
    }
}
impl CryptoRng for ByteRng {}

pub fn b32(x: &[u8]) -> Option<[u8; 32]> {
    x.try_into().ok()
}
pub fn b64(x: &[u8]) -> Option<[u8; 64]> {
    x.try_into().ok()
}
