//! serde: every serialisable type x {bincode, serde_json}.
use super::helpers::*;
use super::Out;
use curve25519_dalek::edwards::{CompressedEdwardsY, EdwardsPoint};
use curve25519_dalek::montgomery::MontgomeryPoint;
use curve25519_dalek::ristretto::{CompressedRistretto, RistrettoPoint};
use curve25519_dalek::scalar::Scalar;
use ed25519_dalek::{Signature, SigningKey, VerifyingKey};
use serde::{de::DeserializeOwned, Serialize};
use x25519_dalek::{PublicKey, StaticSecret};

pub const NTYPES: u8 = 11;

/// a writer that accepts `room` bytes and then fails
struct Bounded {
    room: usize,
}
impl std::io::Write for Bounded {
    fn write(&mut self, b: &[u8]) -> std::io::Result<usize> {
        if b.len() > self.room {
            self.room = 0;
            return Err(std::io::Error::new(std::io::ErrorKind::Other, "sink full"));
        }
        self.room -= b.len();
        Ok(b.len())
    }
    fn flush(&mut self) -> std::io::Result<()> {
        Ok(())
    }
}

/// a serialiser error must surface: with a sink that fails part-way (every cut-off below the full length,
/// bincode and JSON), `serialize` must return Err - an impl that swallows the error reports a truncated
/// encoding as success (seeded change C16h)
fn sink_errors_propagate<T: Serialize>(v: &T, blen: usize, jlen: usize) -> bool {
    let mut ok = true;
    for room in [0usize, 1, blen / 2, blen.saturating_sub(1)] {
        if room < blen {
            ok &= bincode::serialize_into(Bounded { room }, v).is_err();
            let mut small = vec![0u8; room];
            ok &= bincode::serialize_into(&mut small[..], v).is_err();
        }
    }
    for room in [0usize, 1, jlen / 2, jlen.saturating_sub(1)] {
        if room < jlen {
            ok &= serde_json::to_writer(Bounded { room }, v).is_err();
        }
    }
    ok
}

fn ser_both<T: Serialize>(v: &T) -> Option<(Vec<u8>, Vec<u8>)> {
    Some((bincode::serialize(v).ok()?, serde_json::to_vec(v).ok()?))
}

/// wire payload for a deserialisation request
pub fn wire(ty: u8, fmt: u8, shape: u8, raw: &[u8]) -> Vec<u8> {
    if fmt == 0 {
        // bincode: tuple types are raw bytes; the serialize_bytes types carry a u64 length prefix
        if ty == 6 || ty == 7 {
            let claimed = if shape == 1 { 32u64 } else { raw.len() as u64 };
            let mut v = claimed.to_le_bytes().to_vec();
            v.extend_from_slice(raw);
            v
        } else {
            raw.to_vec()
        }
    } else {
        let nums: Vec<String> = raw.iter().map(|b| b.to_string()).collect();
        match shape {
            0 => format!("[{}]", nums.join(",")).into_bytes(),
            1 => {
                // one element out of the u8 range
                let mut n = nums.clone();
                if n.is_empty() { n.push("256".into()); } else { let i = raw[0] as usize % n.len(); n[i] = "256".into(); }
                format!("[{}]", n.join(",")).into_bytes()
            }
            2 => format!("\"{}\"", crate::util::hex(raw)).into_bytes(),
            3 => b"{}".to_vec(),
            4 => {
                let s = format!("[{}]", nums.join(","));
                s.as_bytes()[..s.len() / 2].to_vec()
            }
            5 => format!("[[{}]]", nums.join(",")).into_bytes(),
            6 => {
                let mut n = nums.clone();
                if !n.is_empty() { let i = raw[0] as usize % n.len(); n[i] = "-1".into(); }
                format!("[{}]", n.join(",")).into_bytes()
            }
            7 => format!("[{}] ", nums.join(",")).into_bytes(), // trailing whitespace is fine in JSON
            // a well-formed prefix followed by ONE trailing element that is not a u8
            8 | 9 | 10 | 11 => {
                let mut n = nums.clone();
                n.push(["256", "-1", "\"x\"", "null"][(shape - 8) as usize].to_string());
                format!("[{}]", n.join(",")).into_bytes()
            }
            _ => format!("[{}]", nums.join(",")).into_bytes(),
        }
    }
}

/// formats: 0 bincode, 1 JSON text; and three in-memory deserialisers that drive the other visitor paths:
/// 2 a sequence of u8 with an EXACT size hint (serde::de::value::SeqDeserializer), 3 a serde_json::Value array
/// (exact size hint too), 4 a byte slice (BytesDeserializer -> visit_bytes). For 2..4 the payload is the
/// content itself, not a wire encoding.
fn de<T: DeserializeOwned>(fmt: u8, payload: &[u8]) -> Option<T> {
    use serde::de::value::{BytesDeserializer, Error as VErr, SeqDeserializer};
    match fmt {
        0 => bincode::deserialize(payload).ok(),
        1 => serde_json::from_slice(payload).ok(),
        2 => T::deserialize(SeqDeserializer::<_, VErr>::new(payload.iter().copied())).ok(),
        3 => serde_json::from_value(serde_json::Value::Array(payload.iter().map(|b| serde_json::Value::from(*b)).collect())).ok(),
        _ => T::deserialize(BytesDeserializer::<VErr>::new(payload)).ok(),
    }
}

macro_rules! roundtrip {
    ($v:expr, $ty:ty, $enc:expr) => {{
        let v: $ty = $v;
        let (b, j) = match ser_both(&v) {
            Some(x) => x,
            None => return Out::Ok(b"serialize failed".to_vec()),
        };
        let vb: Option<$ty> = de(0, &b);
        let vj: Option<$ty> = de(1, &j);
        let mut o = (b.len() as u16).to_le_bytes().to_vec();
        o.extend_from_slice(&b);
        o.extend_from_slice(&(j.len() as u16).to_le_bytes());
        o.extend_from_slice(&j);
        match (vb, vj) {
            (Some(x), Some(y)) => {
                o.extend_from_slice(&$enc(&x));
                o.extend_from_slice(&$enc(&y));
            }
            _ => o.extend_from_slice(b"deserialize(serialize(v)) failed"),
        }
        o.push(sink_errors_propagate(&v, b.len(), j.len()) as u8);
        Out::Ok(o)
    }};
}
macro_rules! dez {
    ($fmt:expr, $p:expr, $ty:ty, $enc:expr) => {{
        match de::<$ty>($fmt, $p) {
            Some(v) => Out::Ok($enc(&v)),
            None => Out::Rej,
        }
    }};
}

pub fn exec(op: &str, a: &[Vec<u8>]) -> Out {
    macro_rules! need {
        ($e:expr) => {
            match $e {
                Some(x) => x,
                None => return Out::Rej,
            }
        };
    }
    match op {
        // [type, native bytes of a valid value]
        "sd.roundtrip" => {
            let raw = &a[1];
            match a[0][0] {
                0 => roundtrip!(need!(Option::<Scalar>::from(Scalar::from_canonical_bytes(need!(b32(raw))))), Scalar, |x: &Scalar| x.to_bytes().to_vec()),
                1 => roundtrip!(need!(CompressedEdwardsY(need!(b32(raw))).decompress()), EdwardsPoint, |x: &EdwardsPoint| x.compress().to_bytes().to_vec()),
                2 => roundtrip!(CompressedEdwardsY(need!(b32(raw))), CompressedEdwardsY, |x: &CompressedEdwardsY| x.to_bytes().to_vec()),
                3 => roundtrip!(need!(CompressedRistretto(need!(b32(raw))).decompress()), RistrettoPoint, |x: &RistrettoPoint| x.compress().to_bytes().to_vec()),
                4 => roundtrip!(CompressedRistretto(need!(b32(raw))), CompressedRistretto, |x: &CompressedRistretto| x.to_bytes().to_vec()),
                5 => roundtrip!(MontgomeryPoint(need!(b32(raw))), MontgomeryPoint, |x: &MontgomeryPoint| x.to_bytes().to_vec()),
                6 => roundtrip!(SigningKey::from_bytes(&need!(b32(raw))), SigningKey, |x: &SigningKey| x.to_bytes().to_vec()),
                7 => roundtrip!(need!(VerifyingKey::from_bytes(&need!(b32(raw))).ok()), VerifyingKey, |x: &VerifyingKey| x.to_bytes().to_vec()),
                8 => roundtrip!(Signature::from_bytes(&need!(b64(raw))), Signature, |x: &Signature| x.to_bytes().to_vec()),
                9 => roundtrip!(PublicKey::from(need!(b32(raw))), PublicKey, |x: &PublicKey| x.to_bytes().to_vec()),
                10 => roundtrip!(StaticSecret::from(need!(b32(raw))), StaticSecret, |x: &StaticSecret| x.to_bytes().to_vec()),
                _ => Out::Rej,
            }
        }
        // [type, format, shape, raw content]
        "sd.de" => {
            let (ty, fmt, shape) = (a[0][0], a[1][0] % 5, a[2][0]);
            let p = if fmt >= 2 { a[3].clone() } else { wire(ty, fmt, shape, &a[3]) };
            match ty {
                0 => dez!(fmt, &p, Scalar, |x: &Scalar| x.to_bytes().to_vec()),
                1 => dez!(fmt, &p, EdwardsPoint, |x: &EdwardsPoint| x.compress().to_bytes().to_vec()),
                2 => dez!(fmt, &p, CompressedEdwardsY, |x: &CompressedEdwardsY| x.to_bytes().to_vec()),
                3 => dez!(fmt, &p, RistrettoPoint, |x: &RistrettoPoint| x.compress().to_bytes().to_vec()),
                4 => dez!(fmt, &p, CompressedRistretto, |x: &CompressedRistretto| x.to_bytes().to_vec()),
                5 => dez!(fmt, &p, MontgomeryPoint, |x: &MontgomeryPoint| x.to_bytes().to_vec()),
                6 => dez!(fmt, &p, SigningKey, |x: &SigningKey| x.to_bytes().to_vec()),
                7 => dez!(fmt, &p, VerifyingKey, |x: &VerifyingKey| x.to_bytes().to_vec()),
                8 => dez!(fmt, &p, Signature, |x: &Signature| x.to_bytes().to_vec()),
                9 => dez!(fmt, &p, PublicKey, |x: &PublicKey| x.to_bytes().to_vec()),
                10 => dez!(fmt, &p, StaticSecret, |x: &StaticSecret| x.to_bytes().to_vec()),
                _ => Out::Rej,
            }
        }
        // arbitrary bytes straight into a deserialiser (fuzz-style): [type, format, payload]
        "sd.raw" => {
            let (ty, fmt) = (a[0][0], a[1][0] & 1);
            let p = &a[2];
            let r = match ty {
                0 => de::<Scalar>(fmt, p).map(|x| x.to_bytes().to_vec()),
                1 => de::<EdwardsPoint>(fmt, p).map(|x| x.compress().to_bytes().to_vec()),
                2 => de::<CompressedEdwardsY>(fmt, p).map(|x| x.to_bytes().to_vec()),
                3 => de::<RistrettoPoint>(fmt, p).map(|x| x.compress().to_bytes().to_vec()),
                4 => de::<CompressedRistretto>(fmt, p).map(|x| x.to_bytes().to_vec()),
                5 => de::<MontgomeryPoint>(fmt, p).map(|x| x.to_bytes().to_vec()),
                6 => de::<SigningKey>(fmt, p).map(|x| x.to_bytes().to_vec()),
                7 => de::<VerifyingKey>(fmt, p).map(|x| x.to_bytes().to_vec()),
                8 => de::<Signature>(fmt, p).map(|x| x.to_bytes().to_vec()),
                9 => de::<PublicKey>(fmt, p).map(|x| x.to_bytes().to_vec()),
                _ => de::<StaticSecret>(fmt, p).map(|x| x.to_bytes().to_vec()),
            };
            match r {
                Some(v) => Out::Ok(v),
                None => Out::Rej,
            }
        }
        _ => Out::Unknown,
    }
}
