//! Ristretto operations (public API; representatives injected through the hook in V builds).
use super::helpers::*;
use super::scalarmul::sc_any;
use super::Out;
use curve25519_dalek::ristretto::{CompressedRistretto, RistrettoPoint};
use curve25519_dalek::scalar::Scalar;
use curve25519_dalek::traits::*;
use sha2::Sha512;
use subtle::{Choice, ConditionallySelectable, ConstantTimeEq};

pub fn rp(b: &[u8]) -> Option<RistrettoPoint> {
    CompressedRistretto(b32(b)?).decompress()
}
fn enc(p: &RistrettoPoint) -> [u8; 32] {
    p.compress().to_bytes()
}
fn split32(b: &[u8]) -> Option<Vec<&[u8]>> {
    if b.len() % 32 != 0 {
        return None;
    }
    Some(b.chunks(32).collect())
}

pub const NREG: usize = 6;

pub fn history(regs0: &[u8], prog: &[u8]) -> Out {
    if regs0.len() != 32 * NREG || prog.len() % 4 != 0 {
        return Out::Rej;
    }
    let mut r: Vec<RistrettoPoint> = vec![];
    for i in 0..NREG {
        match rp(&regs0[32 * i..32 * i + 32]) {
            Some(p) => r.push(p),
            None => return Out::Rej,
        }
    }
    let mut o = vec![];
    for ins in prog.chunks(4) {
        let (opc, d, s1, s2) = (ins[0] % 12, ins[1] as usize % NREG, ins[2] as usize % NREG, ins[3] as usize % NREG);
        let imm = ins[3];
        let form = ins[1] as usize / NREG; // which operator form this step uses (the model ignores it)
        let res: RistrettoPoint = match opc {
            0 => crate::add_form!(r[s1], r[s2], form),
            1 => crate::sub_form!(r[s1], r[s2], form),
            2 => {
                if imm & 1 == 0 {
                    -&r[s1]
                } else {
                    -r[s1]
                }
            }
            3 => crate::add_form!(r[s1], r[s1], form),
            4 => crate::add_form!(r[d], r[s1], 4 + form % 2),
            5 => crate::sub_form!(r[d], r[s1], 4 + form % 2),
            6 => {
                let sel: Vec<RistrettoPoint> = (0..NREG).filter(|i| imm >> i & 1 == 1).map(|i| r[i]).collect();
                if form % 2 == 0 {
                    sel.iter().sum()
                } else {
                    sel.into_iter().sum()
                }
            }
            7 => {
                let k = Scalar::from(imm);
                crate::mul_form!(r[s1], k, form)
            }
            8 => match r[s1].compress().decompress() {
                Some(p) => p,
                None => return Out::Ok(b"roundtrip-failed".to_vec()),
            },
            9 => RistrettoPoint::conditional_select(&r[s1], &r[(d + 1) % NREG], Choice::from(imm & 1)),
            10 => {
                if imm & 1 == 0 {
                    RistrettoPoint::identity()
                } else {
                    RistrettoPoint::default()
                }
            }
            _ => crate::sub_form!(r[s1], r[s2], form + 3),
        };
        r[d] = res;
        o.extend_from_slice(&enc(&r[d]));
    }
    for i in 0..NREG {
        for j in 0..NREG {
            o.push(r[i].ct_eq(&r[j]).unwrap_u8() | (((r[i] == r[j]) as u8) << 1));
        }
    }
    Out::Ok(o)
}

pub fn exec(op: &str, a: &[Vec<u8>]) -> Out {
    macro_rules! need {
        ($e:expr) => {
            match $e {
                Some(x) => x,
                None => return Out::Rej,
            }
        };
    }
    match op {
        "rs.decompress" => Out::Ok(enc(&need!(rp(&a[0]))).to_vec()),
        "rs.from_uniform" => Out::Ok(enc(&RistrettoPoint::from_uniform_bytes(&need!(b64(&a[0])))).to_vec()),
        "rs.hash_pass" => {
            let r1 = RistrettoPoint::hash_from_bytes::<Passthrough>(&a[0]);
            let mut h = Passthrough::default();
            digest::Update::update(&mut h, &a[0]);
            let r2 = RistrettoPoint::from_hash(h);
            let mut o = enc(&r1).to_vec();
            o.extend_from_slice(&enc(&r2));
            Out::Ok(o)
        }
        "rs.hash_sha512" => Out::Ok(enc(&RistrettoPoint::hash_from_bytes::<Sha512>(&a[0])).to_vec()),
        "rs.random" => Out::Ok(enc(&RistrettoPoint::random(&mut ByteRng::new(&a[0]))).to_vec()),
        "rs.history" => history(&a[0], &a[1]),
        "rs.eq" => {
            let (x, y) = (need!(rp(&a[0])), need!(rp(&a[1])));
            let (cx, cy) = (CompressedRistretto(need!(b32(&a[0]))), CompressedRistretto(need!(b32(&a[1]))));
            Out::Ok(vec![x.ct_eq(&y).unwrap_u8(), (x == y) as u8, cx.ct_eq(&cy).unwrap_u8(), (cx == cy) as u8])
        }
        // [elements (n x 32)] -> enc(sum by reference) || enc(sum by value)
        "rs.sum_many" => {
            let ps = need!(split32(&a[0]));
            let mut v = vec![];
            for p in ps {
                v.push(need!(rp(p)));
            }
            let s1: RistrettoPoint = v.iter().sum();
            let s2: RistrettoPoint = v.into_iter().sum();
            let mut o = enc(&s1).to_vec();
            o.extend_from_slice(&enc(&s2));
            Out::Ok(o)
        }
        // byte-string equality of compressed elements: ct_eq, ==, Hash, is_identity (all on the 32 bytes as given)
        "rs.compressed_eq" => {
            use curve25519_dalek::ristretto::CompressedRistretto;
            let x = CompressedRistretto(need!(b32(&a[0])));
            let y = CompressedRistretto(need!(b32(&a[1])));
            let hh = |c: &CompressedRistretto| {
                use std::hash::{Hash, Hasher};
                let mut s = std::collections::hash_map::DefaultHasher::new();
                c.hash(&mut s);
                s.finish()
            };
            Out::Ok(vec![x.ct_eq(&y).unwrap_u8(), (x == y) as u8, (hh(&x) == hh(&y)) as u8, curve25519_dalek::traits::IsIdentity::is_identity(&x) as u8])
        }
        "rs.batch" => {
            let ps = need!(split32(&a[0]));
            let mut v = vec![];
            for p in ps {
                v.push(need!(rp(p)));
            }
            let out = RistrettoPoint::double_and_compress_batch(&v);
            let mut o = vec![];
            for c in out {
                o.extend_from_slice(c.as_bytes());
            }
            Out::Ok(o)
        }
        #[cfg(curve25519_dalek_verif)]
        "rs.reps" => {
            // [encoding, t in 0..4]: the representative inner + t*T4 must compress to the same bytes,
            // compare equal, and double_and_compress_batch must agree with compress(2P)
            use curve25519_dalek::constants::EIGHT_TORSION;
            use curve25519_dalek::verif_hooks as h;
            let p = need!(rp(&a[0]));
            let t = (a[1][0] as usize % 4) * 2;
            let rep = h::ristretto_from_edwards(&(h::ristretto_inner(&p) + EIGHT_TORSION[t]));
            let mut o = enc(&rep).to_vec();
            o.push(rep.ct_eq(&p).unwrap_u8());
            o.push((rep == p) as u8);
            let b = RistrettoPoint::double_and_compress_batch(&[rep, p]);
            o.extend_from_slice(b[0].as_bytes());
            o.extend_from_slice(b[1].as_bytes());
            o.extend_from_slice(&enc(&(rep + rep)));
            Out::Ok(o)
        }
        #[cfg(curve25519_dalek_verif)]
        "rs.elligator" => {
            // [r0 field operand] -> compress(elligator(r0)) and the inner coordinates
            use curve25519_dalek::verif_hooks as h;
            let r0 = need!(super::field::operand(&a[0]));
            let p = h::elligator_ristretto_flavor(&r0);
            let mut o = enc(&p).to_vec();
            o.extend_from_slice(&super::edwards::coords(&h::ristretto_inner(&p)));
            Out::Ok(o)
        }
        "rs.mul" => {
            let s = need!(sc_any(&a[0]));
            let p = need!(rp(&a[1]));
            let mut o = vec![];
            for form in 0..10usize {
                o.extend_from_slice(&enc(&crate::mul_form!(p, s, form)));
            }
            Out::Ok(o)
        }
        "rs.mul_base" => {
            let s = need!(sc_any(&a[0]));
            Out::Ok(enc(&RistrettoPoint::mul_base(&s)).to_vec())
        }
        #[cfg(feature = "tables")]
        "rs.table" => {
            use curve25519_dalek::constants::RISTRETTO_BASEPOINT_TABLE as T;
            use curve25519_dalek::ristretto::RistrettoBasepointTable;
            let s = need!(sc_any(&a[0]));
            let p = need!(rp(&a[1]));
            let t = RistrettoBasepointTable::create(&p);
            let mut o = vec![];
            for r in [T * &s, &s * T, T.basepoint(), &t * &s, &s * &t, t.basepoint()] {
                o.extend_from_slice(&enc(&r));
            }
            Out::Ok(o)
        }
        "rs.double_base" => {
            let x = need!(sc_any(&a[0]));
            let p = need!(rp(&a[1]));
            let y = need!(sc_any(&a[2]));
            Out::Ok(enc(&RistrettoPoint::vartime_double_scalar_mul_basepoint(&x, &p, &y)).to_vec())
        }
        "rs.msm" => {
            let kind = a[0][0];
            let ss = need!(split32(&a[2]));
            let ps = need!(split32(&a[3]));
            if ss.len() != ps.len() {
                return Out::Rej;
            }
            let mut scalars = vec![];
            for s in &ss {
                scalars.push(need!(sc_any(s)));
            }
            let mut points = vec![];
            for p in &ps {
                points.push(need!(rp(p)));
            }
            let none = |i: usize| a[1].get(i / 8).map(|b| b >> (i % 8) & 1 == 1).unwrap_or(false);
            let r = match kind {
                0 => RistrettoPoint::multiscalar_mul(&scalars, &points),
                1 => RistrettoPoint::vartime_multiscalar_mul(&scalars, &points),
                _ => {
                    let opt: Vec<Option<RistrettoPoint>> = points.iter().enumerate().map(|(i, p)| if none(i) { None } else { Some(*p) }).collect();
                    need!(RistrettoPoint::optional_multiscalar_mul(&scalars, opt))
                }
            };
            Out::Ok(enc(&r).to_vec())
        }
        "rs.precomp" => {
            use curve25519_dalek::ristretto::VartimeRistrettoPrecomputation as Pre;
            let variant = a[0][0];
            let sp = need!(split32(&a[1]));
            let ss = need!(split32(&a[2]));
            let ds = need!(split32(&a[3]));
            let dp = need!(split32(&a[4]));
            if ss.len() > sp.len() || ds.len() != dp.len() {
                return Out::Rej;
            }
            let mut spv = vec![];
            for p in &sp {
                spv.push(need!(rp(p)));
            }
            let mut dpv = vec![];
            for p in &dp {
                dpv.push(need!(rp(p)));
            }
            let mut ssv = vec![];
            for s in &ss {
                ssv.push(need!(sc_any(s)));
            }
            let mut dsv = vec![];
            for s in &ds {
                dsv.push(need!(sc_any(s)));
            }
            let pre = Pre::new(&spv);
            let none = |i: usize| a[5].get(i / 8).map(|b| b >> (i % 8) & 1 == 1).unwrap_or(false);
            let r = match variant {
                0 => {
                    if !dsv.is_empty() {
                        return Out::Rej;
                    }
                    pre.vartime_multiscalar_mul(&ssv)
                }
                1 => pre.vartime_mixed_multiscalar_mul(&ssv, &dsv, &dpv),
                _ => {
                    let opt: Vec<Option<RistrettoPoint>> = dpv.iter().enumerate().map(|(i, p)| if none(i) { None } else { Some(*p) }).collect();
                    need!(pre.optional_mixed_multiscalar_mul(&ssv, &dsv, opt))
                }
            };
            let mut o = enc(&r).to_vec();
            o.extend_from_slice(&(pre.len() as u32).to_le_bytes());
            o.push(pre.is_empty() as u8);
            Out::Ok(o)
        }
        "rs.consts" => {
            let mut o = enc(&RistrettoPoint::identity()).to_vec();
            o.extend_from_slice(&enc(&RistrettoPoint::default()));
            o.extend_from_slice(CompressedRistretto::identity().as_bytes());
            o.extend_from_slice(CompressedRistretto::default().as_bytes());
            o.extend_from_slice(&enc(&(curve25519_dalek::constants::BASEPOINT_ORDER * curve25519_dalek::constants::RISTRETTO_BASEPOINT_POINT)));
            Out::Ok(o)
        }
        _ => Out::Unknown,
    }
}
