//! Field operations through the guarded hook module (serial FieldElement of this build).
//! Operand encoding: 32 bytes -> from_bytes; FE_LIMBS*8 bytes -> raw limbs (no reduction).
//! Output: [flag bytes] || n x 32 canonical bytes || n x FE_LIMBS x 8 raw result limbs.
use super::Out;
use curve25519_dalek::verif_hooks::{Fe, FE_LIMBS};

pub fn operand(arg: &[u8]) -> Option<Fe> {
    if arg.len() == 32 {
        Some(Fe::from_bytes(arg.try_into().unwrap()))
    } else if arg.len() == 8 * FE_LIMBS {
        let mut l = [0u64; 10];
        for i in 0..FE_LIMBS {
            l[i] = u64::from_le_bytes(arg[8 * i..8 * i + 8].try_into().unwrap());
        }
        Some(Fe::from_limbs(&l))
    } else {
        None
    }
}

pub fn pack(flags: &[u8], results: &[Fe]) -> Out {
    let mut o = flags.to_vec();
    for r in results {
        o.extend_from_slice(&r.as_bytes());
    }
    for r in results {
        let l = r.limbs();
        for i in 0..FE_LIMBS {
            o.extend_from_slice(&l[i].to_le_bytes());
        }
    }
    Out::Ok(o)
}

pub fn exec(op: &str, a: &[Vec<u8>]) -> Out {
    macro_rules! fe {
        ($i:expr) => {
            match a.get($i).and_then(|x| operand(x)) {
                Some(x) => x,
                None => return Out::Rej,
            }
        };
    }
    match op {
        "fe.id" => pack(&[], &[fe!(0)]),
        "fe.add" => {
            let (x, y) = (fe!(0), fe!(1));
            pack(&[], &[x.add(&y), x.add_assign(&y)])
        }
        "fe.sub" => {
            let (x, y) = (fe!(0), fe!(1));
            pack(&[], &[x.sub(&y), x.sub_assign(&y)])
        }
        "fe.mul" => {
            let (x, y) = (fe!(0), fe!(1));
            pack(&[], &[x.mul(&y), x.mul_assign(&y)])
        }
        "fe.neg" => {
            let x = fe!(0);
            pack(&[], &[x.neg(), x.negate()])
        }
        "fe.square" => pack(&[], &[fe!(0).square()]),
        "fe.square2" => pack(&[], &[fe!(0).square2()]),
        "fe.pow2k" => {
            let k = u32::from_le_bytes(a[1][..4].try_into().unwrap());
            if k == 0 {
                return Out::Rej; // documented precondition k > 0
            }
            pack(&[], &[fe!(0).pow2k(k)])
        }
        "fe.invert" => pack(&[], &[fe!(0).invert()]),
        "fe.batch_invert" => {
            let mut v = vec![];
            for i in 0..a.len() {
                v.push(fe!(i));
            }
            Fe::batch_invert(&mut v);
            pack(&[], &v)
        }
        "fe.sqrt_ratio_i" => {
            let (c, r) = Fe::sqrt_ratio_i(&fe!(0), &fe!(1));
            pack(&[c], &[r])
        }
        "fe.invsqrt" => {
            let (c, r) = fe!(0).invsqrt();
            pack(&[c], &[r])
        }
        "fe.preds" => {
            let x = fe!(0);
            pack(&[x.is_negative(), x.is_zero()], &[])
        }
        "fe.eq" => {
            let (x, y) = (fe!(0), fe!(1));
            pack(&[x.ct_eq(&y), x.eq(&y) as u8], &[])
        }
        "fe.cond" => {
            let (x, y) = (fe!(0), fe!(1));
            let c = a[2][0] & 1;
            let (s1, s2) = Fe::conditional_swap(&x, &y, c);
            pack(&[], &[Fe::conditional_select(&x, &y, c), x.conditional_assign(&y, c), s1, s2, x.conditional_negate(c)])
        }
        _ => Out::Unknown,
    }
}
