//! Precomputed constants and table entries (C12): raw read-out through the hook, plus the public ones.
use super::Out;

fn fe_out(f: &curve25519_dalek::verif_hooks::Fe) -> Vec<u8> {
    let mut o = f.as_bytes().to_vec();
    let l = f.limbs();
    for i in 0..curve25519_dalek::verif_hooks::FE_LIMBS {
        o.extend_from_slice(&l[i].to_le_bytes());
    }
    o
}

pub fn exec(op: &str, a: &[Vec<u8>]) -> Out {
    use curve25519_dalek::verif_hooks as h;
    let idx = |i: usize| a.get(i).map(|x| x[0] as usize).unwrap_or(0);
    match op {
        // [name] -> canonical bytes || raw limbs
        "k.field" => {
            let name = String::from_utf8_lossy(&a[0]).to_string();
            if name == "MONTGOMERY_A_NEG" {
                return Out::Ok(fe_out(&h::montgomery_a_neg()));
            }
            for (n, f) in h::field_constants().iter() {
                if *n == name {
                    return Out::Ok(fe_out(f));
                }
            }
            Out::Rej
        }
        // [index 0..9] -> X, Y, Z, T (canonical bytes) of the public point constants as shipped: EIGHT_TORSION[0..8],
        // 8 = ED25519_BASEPOINT_POINT, 9 = RISTRETTO_BASEPOINT_POINT's representative. compress() and == never read
        // T, so a wrong T (seeded change C05f) only shows when the constant itself enters an addition.
        "k.point_const" => {
            use curve25519_dalek::constants as c;
            let i = idx(0);
            let p = match i {
                0..=7 => c::EIGHT_TORSION[i],
                8 => c::ED25519_BASEPOINT_POINT,
                _ => h::ristretto_inner(&c::RISTRETTO_BASEPOINT_POINT),
            };
            let mut o = vec![];
            for f in h::edwards_coords(&p).iter() {
                o.extend_from_slice(&f.as_bytes());
            }
            Out::Ok(o)
        }
        // -> for L, R, RR: SCALAR_LIMBS x 8 bytes each; then LFACTOR (8), limb bits (1), nlimbs (1)
        "k.scalar" => {
            let (cs, lf) = h::scalar_constants();
            let mut o = vec![];
            for (_, l) in cs.iter() {
                for i in 0..h::SCALAR_LIMBS {
                    o.extend_from_slice(&l[i].to_le_bytes());
                }
            }
            o.extend_from_slice(&lf.to_le_bytes());
            o.push(h::SCALAR_LIMB_BITS as u8);
            o.push(h::SCALAR_LIMBS as u8);
            Out::Ok(o)
        }
        #[cfg(feature = "tables")]
        "k.bp_table" | "k.bp_table_rist" | "k.odd_table" => {
            let e = match op {
                "k.bp_table" => h::basepoint_table_entry(idx(0), idx(1)),
                "k.bp_table_rist" => h::ristretto_basepoint_table_entry(idx(0), idx(1)),
                _ => h::affine_odd_multiples_entry(idx(0)),
            };
            let mut o = vec![];
            for f in e.iter() {
                o.extend_from_slice(&f.as_bytes());
            }
            for f in e.iter() {
                let l = f.limbs();
                for i in 0..h::FE_LIMBS {
                    o.extend_from_slice(&l[i].to_le_bytes());
                }
            }
            Out::Ok(o)
        }
        #[cfg(all(feature = "tables", not(any(curve25519_dalek_backend = "serial", curve25519_dalek_backend = "fiat"))))]
        "k.avx2_odd_table" => {
            let v = h::avx2::basepoint_odd_table_entry(idx(0));
            super::vector::avx2::pack(&v)
        }
        #[cfg(not(any(curve25519_dalek_backend = "serial", curve25519_dalek_backend = "fiat")))]
        "k.avx2_consts" => {
            let mut o = vec![];
            for v in h::avx2::p_multiples().iter() {
                for x in v.iter() {
                    o.extend_from_slice(&x.to_le_bytes());
                }
            }
            let (e, c) = h::avx2::identities();
            for v in [e, c] {
                if let Out::Ok(b) = super::vector::avx2::pack(&v) {
                    o.extend_from_slice(&b);
                }
            }
            Out::Ok(o)
        }
        #[cfg(all(feature = "tables", curve25519_dalek_backend = "unstable_avx512"))]
        "k.ifma_odd_table" => {
            let v = h::ifma::basepoint_odd_table_entry(idx(0));
            super::vector::ifma::pack_r(&v)
        }
        #[cfg(curve25519_dalek_backend = "unstable_avx512")]
        "k.ifma_consts" => {
            let (e, c) = h::ifma::identities();
            let mut o = vec![];
            if let Out::Ok(b) = super::vector::ifma::pack_u(&e) {
                o.extend_from_slice(&b);
            }
            if let Out::Ok(b) = super::vector::ifma::pack_r(&c) {
                o.extend_from_slice(&b);
            }
            Out::Ok(o)
        }
        _ => Out::Unknown,
    }
}
