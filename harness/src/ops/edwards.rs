//! Edwards point operations (public API; coordinate read-out through the hook in V builds).
use super::helpers::*;
use super::Out;
use curve25519_dalek::constants::EIGHT_TORSION;
use curve25519_dalek::edwards::{CompressedEdwardsY, EdwardsPoint};
use curve25519_dalek::scalar::Scalar;
use curve25519_dalek::traits::{Identity, IsIdentity};
use subtle::{Choice, ConditionallySelectable, ConstantTimeEq};

pub fn pt(b: &[u8]) -> Option<EdwardsPoint> {
    CompressedEdwardsY(b32(b)?).decompress()
}

#[cfg(curve25519_dalek_verif)]
pub fn coords(p: &EdwardsPoint) -> Vec<u8> {
    let c = curve25519_dalek::verif_hooks::edwards_coords(p);
    let mut o = vec![];
    for f in c.iter() {
        o.extend_from_slice(&f.as_bytes());
    }
    o
}
#[cfg(not(curve25519_dalek_verif))]
pub fn coords(_p: &EdwardsPoint) -> Vec<u8> {
    vec![]
}

pub const NREG: usize = 6;

/// Interpreter for histories of group operations over a register file of 6 points.
/// Instruction = 4 bytes (opcode, dst, s1, s2/imm). Returns per-step compress(dst) [+ coords].
pub fn history(regs0: &[u8], prog: &[u8], with_coords: bool) -> Out {
    if regs0.len() != 32 * NREG || prog.len() % 4 != 0 {
        return Out::Rej;
    }
    let mut r: Vec<EdwardsPoint> = vec![];
    for i in 0..NREG {
        match pt(&regs0[32 * i..32 * i + 32]) {
            Some(p) => r.push(p),
            None => return Out::Rej,
        }
    }
    let mut o = vec![];
    for ins in prog.chunks(4) {
        let (opc, d, s1, s2) = (ins[0] % 16, ins[1] as usize % NREG, ins[2] as usize % NREG, ins[3] as usize % NREG);
        let imm = ins[3];
        let form = ins[1] as usize / NREG; // 0..42: which operator form this step uses (the model ignores it)
        let res: EdwardsPoint = match opc {
            0 => crate::add_form!(r[s1], r[s2], form),
            1 => crate::sub_form!(r[s1], r[s2], form),
            2 => {
                if imm & 1 == 0 {
                    -&r[s1]
                } else {
                    -r[s1]
                }
            }
            3 => crate::add_form!(r[s1], r[s1], form),
            4 => r[s1].mul_by_cofactor(),
            5 => crate::add_form!(r[d], r[s1], 4 + form % 2),
            6 => crate::sub_form!(r[d], r[s1], 4 + form % 2),
            7 => {
                let sel: Vec<EdwardsPoint> = (0..NREG).filter(|i| imm >> i & 1 == 1).map(|i| r[i]).collect();
                if imm & 0x40 == 0 {
                    sel.iter().sum()
                } else {
                    sel.into_iter().sum()
                }
            }
            8 => {
                let k = Scalar::from(imm);
                crate::mul_form!(r[s1], k, form)
            }
            9 => &r[s1] + &EIGHT_TORSION[imm as usize % 8],
            10 => match r[s1].compress().decompress() {
                Some(p) => p,
                None => return Out::Ok(b"roundtrip-failed".to_vec()),
            },
            11 => EdwardsPoint::conditional_select(&r[s1], &r[(d + 1) % NREG], Choice::from(imm & 1)),
            12 => {
                if imm & 1 == 0 {
                    EdwardsPoint::identity()
                } else {
                    EdwardsPoint::default()
                }
            }
            13 => crate::add_form!(r[s1], r[s2], form + 3),
            14 => crate::sub_form!(r[s1], r[s2], form + 3),
            _ => {
                let mut t = r[s1];
                t.conditional_assign(&r[s2], Choice::from(ins[1] >> 7));
                t
            }
        };
        r[d] = res;
        o.extend_from_slice(r[d].compress().as_bytes());
        if with_coords {
            o.extend_from_slice(&coords(&r[d]));
        }
    }
    // final observations
    for i in 0..NREG {
        for j in 0..NREG {
            let e1 = r[i].ct_eq(&r[j]).unwrap_u8();
            let e2 = (r[i] == r[j]) as u8;
            o.push(e1 | (e2 << 1));
        }
    }
    for i in 0..NREG {
        o.push(r[i].is_identity() as u8);
    }
    for i in 0..NREG {
        o.push(r[i].is_small_order() as u8);
    }
    for i in 0..NREG {
        o.push(r[i].is_torsion_free() as u8);
    }
    Out::Ok(o)
}

pub fn exec(op: &str, a: &[Vec<u8>]) -> Out {
    macro_rules! need {
        ($e:expr) => {
            match $e {
                Some(x) => x,
                None => return Out::Rej,
            }
        };
    }
    match op {
        "ed.decompress" => {
            let p = need!(pt(&a[0]));
            Out::Ok(p.compress().as_bytes().to_vec())
        }
        #[cfg(curve25519_dalek_verif)]
        "ed.decompress_coords" => {
            let p = need!(pt(&a[0]));
            let mut o = p.compress().as_bytes().to_vec();
            o.extend_from_slice(&coords(&p));
            Out::Ok(o)
        }
        "ed.history" => history(&a[0], &a[1], false),
        #[cfg(curve25519_dalek_verif)]
        "ed.history_coords" => history(&a[0], &a[1], true),
        // [points (n x 32)] -> compress(sum by reference) || compress(sum by value): long collections
        "ed.sum_many" => {
            if a[0].len() % 32 != 0 {
                return Out::Rej;
            }
            let mut v = vec![];
            for c in a[0].chunks(32) {
                v.push(need!(pt(c)));
            }
            let s1: EdwardsPoint = v.iter().sum();
            let s2: EdwardsPoint = v.into_iter().sum();
            let mut o = s1.compress().to_bytes().to_vec();
            o.extend_from_slice(s2.compress().as_bytes());
            Out::Ok(o)
        }
        "ed.consts" => {
            let mut o = vec![];
            o.extend_from_slice(curve25519_dalek::constants::ED25519_BASEPOINT_POINT.compress().as_bytes());
            o.extend_from_slice(curve25519_dalek::constants::ED25519_BASEPOINT_COMPRESSED.as_bytes());
            o.extend_from_slice(CompressedEdwardsY::identity().as_bytes());
            o.extend_from_slice(CompressedEdwardsY::default().as_bytes());
            o.extend_from_slice(EdwardsPoint::identity().compress().as_bytes());
            for t in EIGHT_TORSION.iter() {
                o.extend_from_slice(t.compress().as_bytes());
            }
            Out::Ok(o)
        }
        "ed.compressed_eq" => {
            let x = CompressedEdwardsY(need!(b32(&a[0])));
            let y = CompressedEdwardsY(need!(b32(&a[1])));
            let hh = |c: &CompressedEdwardsY| {
                use std::hash::{Hash, Hasher};
                let mut s = std::collections::hash_map::DefaultHasher::new();
                c.hash(&mut s);
                s.finish()
            };
            Out::Ok(vec![x.ct_eq(&y).unwrap_u8(), (x == y) as u8, (hh(&x) == hh(&y)) as u8, IsIdentity::is_identity(&x) as u8])
        }
        _ => Out::Unknown,
    }
}
