//! Scalar multiplication entry points (Edwards). Scalars arrive as 32 bytes: canonical ones are
//! built with from_canonical_bytes, others (below 2^255) with the legacy from_bits constructor.
use super::edwards::pt;
use super::helpers::*;
use super::Out;
use curve25519_dalek::edwards::EdwardsPoint;
use curve25519_dalek::scalar::Scalar;
use curve25519_dalek::traits::*;

pub fn sc_any(b: &[u8]) -> Option<Scalar> {
    let a = b32(b)?;
    if a[31] >> 7 != 0 {
        return None;
    }
    match Option::<Scalar>::from(Scalar::from_canonical_bytes(a)) {
        Some(s) => Some(s),
        None => {
            #[allow(deprecated)]
            Some(Scalar::from_bits(a))
        }
    }
}

fn enc(p: &EdwardsPoint) -> [u8; 32] {
    p.compress().to_bytes()
}

fn split32(b: &[u8]) -> Option<Vec<&[u8]>> {
    if b.len() % 32 != 0 {
        return None;
    }
    Some(b.chunks(32).collect())
}

#[cfg(feature = "tables")]
mod tables {
    use super::*;
    use curve25519_dalek::edwards::*;

    pub enum AnyTable {
        R16(Box<EdwardsBasepointTableRadix16>),
        R32(Box<EdwardsBasepointTableRadix32>),
        R64(Box<EdwardsBasepointTableRadix64>),
        R128(Box<EdwardsBasepointTableRadix128>),
        R256(Box<EdwardsBasepointTableRadix256>),
    }
    use AnyTable::*;

    impl AnyTable {
        pub fn create(radix: u8, p: &EdwardsPoint) -> Option<AnyTable> {
            Some(match radix {
                4 => R16(Box::new(EdwardsBasepointTableRadix16::create(p))),
                5 => R32(Box::new(EdwardsBasepointTableRadix32::create(p))),
                6 => R64(Box::new(EdwardsBasepointTableRadix64::create(p))),
                7 => R128(Box::new(EdwardsBasepointTableRadix128::create(p))),
                8 => R256(Box::new(EdwardsBasepointTableRadix256::create(p))),
                _ => return None,
            })
        }
        pub fn basepoint(&self) -> EdwardsPoint {
            match self {
                R16(t) => t.basepoint(),
                R32(t) => t.basepoint(),
                R64(t) => t.basepoint(),
                R128(t) => t.basepoint(),
                R256(t) => t.basepoint(),
            }
        }
        pub fn mul_base(&self, s: &Scalar) -> EdwardsPoint {
            match self {
                R16(t) => t.mul_base(s),
                R32(t) => t.mul_base(s),
                R64(t) => t.mul_base(s),
                R128(t) => t.mul_base(s),
                R256(t) => t.mul_base(s),
            }
        }
        pub fn mul_op(&self, s: &Scalar) -> (EdwardsPoint, EdwardsPoint) {
            match self {
                R16(t) => (&**t * s, s * &**t),
                R32(t) => (&**t * s, s * &**t),
                R64(t) => (&**t * s, s * &**t),
                R128(t) => (&**t * s, s * &**t),
                R256(t) => (&**t * s, s * &**t),
            }
        }
        pub fn mul_base_clamped(&self, b: [u8; 32]) -> EdwardsPoint {
            match self {
                R16(t) => t.mul_base_clamped(b),
                R32(t) => t.mul_base_clamped(b),
                R64(t) => t.mul_base_clamped(b),
                R128(t) => t.mul_base_clamped(b),
                R256(t) => t.mul_base_clamped(b),
            }
        }
        /// the `From<&A> for B` conversions between radices
        pub fn convert(&self, to: u8) -> Option<AnyTable> {
            // From<&T> for T does not exist for the same radix (only the blanket From<T> for T), so
            // same-radix "conversions" are skipped by the caller.
            Some(match (self, to) {
                (R16(_), 4) | (R32(_), 5) | (R64(_), 6) | (R128(_), 7) | (R256(_), 8) => return None,
                (R16(t), _) => match to { 5 => R32(Box::new((&**t).into())), 6 => R64(Box::new((&**t).into())), 7 => R128(Box::new((&**t).into())), 8 => R256(Box::new((&**t).into())), _ => return None },
                (R32(t), _) => match to { 4 => R16(Box::new((&**t).into())), 6 => R64(Box::new((&**t).into())), 7 => R128(Box::new((&**t).into())), 8 => R256(Box::new((&**t).into())), _ => return None },
                (R64(t), _) => match to { 4 => R16(Box::new((&**t).into())), 5 => R32(Box::new((&**t).into())), 7 => R128(Box::new((&**t).into())), 8 => R256(Box::new((&**t).into())), _ => return None },
                (R128(t), _) => match to { 4 => R16(Box::new((&**t).into())), 5 => R32(Box::new((&**t).into())), 6 => R64(Box::new((&**t).into())), 8 => R256(Box::new((&**t).into())), _ => return None },
                (R256(t), _) => match to { 4 => R16(Box::new((&**t).into())), 5 => R32(Box::new((&**t).into())), 6 => R64(Box::new((&**t).into())), 7 => R128(Box::new((&**t).into())), _ => return None },
            })
        }
    }
}

pub fn exec(op: &str, a: &[Vec<u8>]) -> Out {
    macro_rules! need {
        ($e:expr) => {
            match $e {
                Some(x) => x,
                None => return Out::Rej,
            }
        };
    }
    match op {
        "sm.var_base" => {
            let s = need!(sc_any(&a[0]));
            let p = need!(pt(&a[1]));
            let mut o = vec![];
            for form in 0..10usize {
                o.extend_from_slice(&enc(&crate::mul_form!(p, s, form)));
            }
            Out::Ok(o)
        }
        "sm.mul_base" => {
            let s = need!(sc_any(&a[0]));
            Out::Ok(enc(&EdwardsPoint::mul_base(&s)).to_vec())
        }
        #[cfg(feature = "tables")]
        "sm.const_table" => {
            use curve25519_dalek::constants::ED25519_BASEPOINT_TABLE as T;
            let s = need!(sc_any(&a[0]));
            let mut o = vec![];
            for r in [T * &s, &s * T, T.mul_base(&s), T.basepoint()] {
                o.extend_from_slice(&enc(&r));
            }
            Out::Ok(o)
        }
        "sm.mul_clamped" => {
            let p = need!(pt(&a[1]));
            Out::Ok(enc(&p.mul_clamped(need!(b32(&a[0])))).to_vec())
        }
        "sm.mul_base_clamped" => Out::Ok(enc(&EdwardsPoint::mul_base_clamped(need!(b32(&a[0])))).to_vec()),
        #[cfg(feature = "tables")]
        "sm.table" => {
            // [radix, P, s, clamp bytes]
            let p = need!(pt(&a[1]));
            let s = need!(sc_any(&a[2]));
            let t = need!(tables::AnyTable::create(a[0][0], &p));
            let (m1, m2) = t.mul_op(&s);
            let mut o = vec![];
            for r in [t.basepoint(), t.mul_base(&s), m1, m2, t.mul_base_clamped(need!(b32(&a[3])))] {
                o.extend_from_slice(&enc(&r));
            }
            Out::Ok(o)
        }
        #[cfg(feature = "tables")]
        "sm.table_convert" => {
            // [radix chain bytes (first = created radix), P, s]
            let p = need!(pt(&a[1]));
            let s = need!(sc_any(&a[2]));
            let chain = &a[0];
            if chain.is_empty() {
                return Out::Rej;
            }
            let mut t = need!(tables::AnyTable::create(chain[0], &p));
            let mut cur = chain[0];
            for r in &chain[1..] {
                if *r == cur {
                    continue;
                }
                t = need!(t.convert(*r));
                cur = *r;
            }
            let mut o = enc(&t.basepoint()).to_vec();
            o.extend_from_slice(&enc(&t.mul_base(&s)));
            Out::Ok(o)
        }
        "sm.double_base" => {
            let x = need!(sc_any(&a[0]));
            let p = need!(pt(&a[1]));
            let y = need!(sc_any(&a[2]));
            Out::Ok(enc(&EdwardsPoint::vartime_double_scalar_mul_basepoint(&x, &p, &y)).to_vec())
        }
        "sm.msm" => {
            // [kind, none-bitmap, scalars (n x 32), points (n x 32)]
            let kind = a[0][0];
            let ss = need!(split32(&a[2]));
            let ps = need!(split32(&a[3]));
            if ss.len() != ps.len() {
                return Out::Rej; // documented: lengths must match (the crate asserts)
            }
            let mut scalars = vec![];
            for s in &ss {
                scalars.push(need!(sc_any(s)));
            }
            let mut points = vec![];
            for p in &ps {
                points.push(need!(pt(p)));
            }
            let none = |i: usize| a[1].get(i / 8).map(|b| b >> (i % 8) & 1 == 1).unwrap_or(false);
            let r = match kind {
                0 => EdwardsPoint::multiscalar_mul(&scalars, &points),
                1 => EdwardsPoint::vartime_multiscalar_mul(&scalars, &points),
                2 => {
                    let opt: Vec<Option<EdwardsPoint>> = points.iter().enumerate().map(|(i, p)| if none(i) { None } else { Some(*p) }).collect();
                    need!(EdwardsPoint::optional_multiscalar_mul(&scalars, opt))
                }
                // by-value iterators
                3 => EdwardsPoint::multiscalar_mul(scalars.iter().copied(), points.iter().copied()),
                _ => EdwardsPoint::vartime_multiscalar_mul(scalars.into_iter(), points.into_iter()),
            };
            Out::Ok(enc(&r).to_vec())
        }
        "sm.precomp" => {
            // [variant, static points, static scalars, dyn scalars, dyn points, none-bitmap]
            use curve25519_dalek::edwards::VartimeEdwardsPrecomputation as Pre;
            let variant = a[0][0];
            let sp = need!(split32(&a[1]));
            let ss = need!(split32(&a[2]));
            let ds = need!(split32(&a[3]));
            let dp = need!(split32(&a[4]));
            if ss.len() > sp.len() || ds.len() != dp.len() {
                return Out::Rej; // documented preconditions (asserted by the crate)
            }
            let mut spv = vec![];
            for p in &sp {
                spv.push(need!(pt(p)));
            }
            let mut dpv = vec![];
            for p in &dp {
                dpv.push(need!(pt(p)));
            }
            let mut ssv = vec![];
            for s in &ss {
                ssv.push(need!(sc_any(s)));
            }
            let mut dsv = vec![];
            for s in &ds {
                dsv.push(need!(sc_any(s)));
            }
            let pre = Pre::new(&spv);
            // the same precomputation built from an iterator WITHOUT an exact size hint: len() / is_empty() must
            // not depend on how the collection grew (seeded change C05g: len() returning the Vec's capacity)
            {
                let pre2 = Pre::new(spv.iter().filter(|_| true));
                if pre2.len() != pre.len() || pre2.is_empty() != pre.is_empty() || pre.len() != spv.len() {
                    return Out::Ok(format!("precomputation len(): {} from a slice, {} from a filtered iterator, {} points", pre.len(), pre2.len(), spv.len()).into_bytes());
                }
            }
            // a precomputation is a reusable object: a first use with other scalars (all ones, fewer of them)
            // must not influence the measured call
            {
                let ones = vec![Scalar::ONE; ssv.len() / 2];
                let _ = pre.vartime_multiscalar_mul(&ones);
                let _ = pre.vartime_mixed_multiscalar_mul(&ones, &dsv, &dpv);
            }
            let none = |i: usize| a[5].get(i / 8).map(|b| b >> (i % 8) & 1 == 1).unwrap_or(false);
            let r = match variant {
                0 => {
                    if !dsv.is_empty() {
                        return Out::Rej;
                    }
                    pre.vartime_multiscalar_mul(&ssv)
                }
                1 => pre.vartime_mixed_multiscalar_mul(&ssv, &dsv, &dpv),
                _ => {
                    let opt: Vec<Option<EdwardsPoint>> = dpv.iter().enumerate().map(|(i, p)| if none(i) { None } else { Some(*p) }).collect();
                    need!(pre.optional_mixed_multiscalar_mul(&ssv, &dsv, opt))
                }
            };
            let mut o = enc(&r).to_vec();
            o.extend_from_slice(&(pre.len() as u32).to_le_bytes());
            o.push(pre.is_empty() as u8);
            Out::Ok(o)
        }
        // [start point, steps (65 bytes each: kind, scalar s, scalar t)] -> compress after every step.
        // Results of one multiplication are fed, un-normalised, into the next one.
        "sm.chain" => {
            let mut q = need!(pt(&a[0]));
            let mut r = q;
            if a[1].len() % 65 != 0 {
                return Out::Rej;
            }
            let mut o = vec![];
            for st in a[1].chunks(65) {
                let s = need!(sc_any(&st[1..33]));
                let t = need!(sc_any(&st[33..65]));
                let prev = q;
                q = match st[0] % 8 {
                    0 => &q * &s,
                    1 => EdwardsPoint::vartime_double_scalar_mul_basepoint(&s, &q, &t),
                    2 => EdwardsPoint::multiscalar_mul(&[s, t], &[q, r]),
                    3 => EdwardsPoint::vartime_multiscalar_mul(&[s, t], &[q, r]),
                    4 => &q + &r,
                    5 => &EdwardsPoint::mul_base(&s) + &q,
                    6 => -&q,
                    _ => &(&q * &s) - &(&r * &t),
                };
                r = prev;
                o.extend_from_slice(&enc(&q));
            }
            Out::Ok(o)
        }
        #[cfg(curve25519_dalek_verif)]
        "sm.recode" => {
            // [scalar (< 2^255, raw), kind (0 radix16, 1 radix2w, 2 naf), w]
            use curve25519_dalek::verif_hooks as h;
            let s = need!(sc_any(&a[0]));
            let w = a[2][0] as usize;
            let digits: Vec<i8> = match a[1][0] {
                0 => h::as_radix_16(&s).to_vec(),
                1 => {
                    let mut v = h::as_radix_2w(&s, w).to_vec();
                    v.push(h::to_radix_2w_size_hint(w) as i8);
                    v
                }
                _ => h::non_adjacent_form(&s, w).to_vec(),
            };
            Out::Ok(digits.iter().map(|d| *d as u8).collect())
        }
        _ => Out::Unknown,
    }
}
