//! ff / group trait implementations (group feature).
use super::edwards::pt;
use super::helpers::*;
use super::Out;
use curve25519_dalek::edwards::{EdwardsPoint, SubgroupPoint};
use curve25519_dalek::ristretto::RistrettoPoint;
use curve25519_dalek::scalar::Scalar;
use ff::{Field, FromUniformBytes, PrimeField, PrimeFieldBits};
use group::cofactor::CofactorGroup;
use group::{Group, GroupEncoding};

fn sc(b: &[u8]) -> Option<Scalar> {
    Option::from(Scalar::from_canonical_bytes(b32(b)?))
}
fn opt(o: Option<Scalar>) -> Vec<u8> {
    match o {
        Some(s) => {
            let mut v = vec![1u8];
            v.extend_from_slice(s.as_bytes());
            v
        }
        None => {
            let mut v = vec![0u8];
            v.extend_from_slice(&[0u8; 32]);
            v
        }
    }
}

pub fn exec(op: &str, a: &[Vec<u8>]) -> Out {
    macro_rules! need {
        ($e:expr) => {
            match $e {
                Some(x) => x,
                None => return Out::Rej,
            }
        };
    }
    match op {
        // [s] -> sqrt(33) invert(33) square double repr is_odd inherent_invert_if_nonzero
        "gp.field" => {
            let s = need!(sc(&a[0]));
            let mut o = opt(Option::from(Field::sqrt(&s)));
            o.extend_from_slice(&opt(Option::from(Field::invert(&s))));
            o.extend_from_slice(Field::square(&s).as_bytes());
            o.extend_from_slice(Field::double(&s).as_bytes());
            o.extend_from_slice(&PrimeField::to_repr(&s));
            o.push(PrimeField::is_odd(&s).unwrap_u8());
            o.push(bool::from(Field::is_zero(&s)) as u8);
            let bits = s.to_le_bits();
            let mut packed = [0u8; 32];
            for (i, b) in bits.iter().enumerate() {
                if *b {
                    packed[i / 8] |= 1 << (i % 8);
                }
            }
            o.extend_from_slice(&packed);
            Out::Ok(o)
        }
        "gp.sqrt_ratio" => {
            let (n, d) = (need!(sc(&a[0])), need!(sc(&a[1])));
            let (c, r) = Scalar::sqrt_ratio(&n, &d);
            let mut o = vec![c.unwrap_u8()];
            o.extend_from_slice(r.as_bytes());
            let (c2, r2) = Field::sqrt_alt(&n);
            o.push(c2.unwrap_u8());
            o.extend_from_slice(r2.as_bytes());
            Out::Ok(o)
        }
        "gp.from_repr" => {
            let b = need!(b32(&a[0]));
            let x: Option<Scalar> = Option::from(Scalar::from_repr(b));
            let y: Option<Scalar> = Scalar::from_repr_vartime(b);
            let mut o = opt(x);
            o.extend_from_slice(&opt(y));
            Out::Ok(o)
        }
        "gp.from_uniform" => Out::Ok(<Scalar as FromUniformBytes<64>>::from_uniform_bytes(&need!(b64(&a[0]))).as_bytes().to_vec()),
        "gp.random" => Out::Ok(<Scalar as Field>::random(ByteRng::new(&a[0])).as_bytes().to_vec()),
        "gp.consts" => {
            let mut o = vec![];
            let m = Scalar::MODULUS.as_bytes();
            o.push(m.len() as u8);
            o.extend_from_slice(m);
            o.extend_from_slice(&Scalar::NUM_BITS.to_le_bytes());
            o.extend_from_slice(&Scalar::CAPACITY.to_le_bytes());
            o.extend_from_slice(&Scalar::S.to_le_bytes());
            for c in [Scalar::TWO_INV, Scalar::MULTIPLICATIVE_GENERATOR, Scalar::ROOT_OF_UNITY, Scalar::ROOT_OF_UNITY_INV, Scalar::DELTA, <Scalar as Field>::ZERO, <Scalar as Field>::ONE] {
                o.extend_from_slice(c.as_bytes());
            }
            let cb = Scalar::char_le_bits();
            let mut packed = [0u8; 32];
            for (i, b) in cb.iter().enumerate() {
                if *b {
                    packed[i / 8] |= 1 << (i % 8);
                }
            }
            o.extend_from_slice(&packed);
            Out::Ok(o)
        }
        // [32 bytes] -> Edwards from_bytes(1+32) from_bytes_unchecked(1+32) Subgroup from_bytes(1+32) unchecked(1+32)
        "gp.ed_encoding" => {
            let b = need!(b32(&a[0]));
            let mut o = vec![];
            let e1: Option<EdwardsPoint> = Option::from(<EdwardsPoint as GroupEncoding>::from_bytes(&b));
            let e2: Option<EdwardsPoint> = Option::from(<EdwardsPoint as GroupEncoding>::from_bytes_unchecked(&b));
            let s1: Option<SubgroupPoint> = Option::from(<SubgroupPoint as GroupEncoding>::from_bytes(&b));
            let s2: Option<SubgroupPoint> = Option::from(<SubgroupPoint as GroupEncoding>::from_bytes_unchecked(&b));
            for e in [e1, e2] {
                match e {
                    Some(p) => {
                        o.push(1);
                        o.extend_from_slice(&GroupEncoding::to_bytes(&p));
                    }
                    None => o.extend_from_slice(&[0u8; 33]),
                }
            }
            for s in [s1, s2] {
                match s {
                    Some(p) => {
                        o.push(1);
                        o.extend_from_slice(&GroupEncoding::to_bytes(&p));
                    }
                    None => o.extend_from_slice(&[0u8; 33]),
                }
            }
            Out::Ok(o)
        }
        "gp.rs_encoding" => {
            let b = need!(b32(&a[0]));
            let mut o = vec![];
            for r in [Option::<RistrettoPoint>::from(<RistrettoPoint as GroupEncoding>::from_bytes(&b)), Option::from(<RistrettoPoint as GroupEncoding>::from_bytes_unchecked(&b))] {
                match r {
                    Some(p) => {
                        o.push(1);
                        o.extend_from_slice(&GroupEncoding::to_bytes(&p));
                        o.push(bool::from(CofactorGroup::is_torsion_free(&p)) as u8);
                        o.extend_from_slice(&GroupEncoding::to_bytes(&CofactorGroup::clear_cofactor(&p)));
                        o.extend_from_slice(&GroupEncoding::to_bytes(&Group::double(&p)));
                        o.push(bool::from(Group::is_identity(&p)) as u8);
                    }
                    None => o.extend_from_slice(&[0u8; 99]),
                }
            }
            Out::Ok(o)
        }
        // [64 uniform bytes]: P = from_uniform_bytes (its internal representative generally carries torsion),
        // D = P - decompress(compress(P)) = the identity element with a torsion representative (3 times in 4):
        // the group-trait predicates must treat them as the Ristretto elements they are
        "gp.rs_group" => {
            let p = RistrettoPoint::from_uniform_bytes(&need!(b64(&a[0])));
            let pc = need!(p.compress().decompress());
            let d = p - pc;
            let mut o = vec![];
            o.extend_from_slice(&GroupEncoding::to_bytes(&p));
            o.push(bool::from(Group::is_identity(&p)) as u8);
            o.extend_from_slice(&GroupEncoding::to_bytes(&d));
            o.push(bool::from(Group::is_identity(&d)) as u8);
            o.push(subtle::ConstantTimeEq::ct_eq(&d, &<RistrettoPoint as Group>::identity()).unwrap_u8());
            o.push((d == <RistrettoPoint as curve25519_dalek::traits::Identity>::identity()) as u8);
            o.extend_from_slice(&GroupEncoding::to_bytes(&Group::double(&d)));
            o.push(bool::from(CofactorGroup::is_torsion_free(&d)) as u8);
            o.push(bool::from(CofactorGroup::is_torsion_free(&p)) as u8);
            o.extend_from_slice(&GroupEncoding::to_bytes(&CofactorGroup::clear_cofactor(&p)));
            o.extend_from_slice(&GroupEncoding::to_bytes(&(Group::double(&p) - p - pc)));
            o.push(bool::from(Group::is_identity(&(Group::double(&p) - p - pc))) as u8);
            o.push(curve25519_dalek::traits::IsIdentity::is_identity(&d) as u8);
            Out::Ok(o)
        }
        // [s, 16 bytes v]: the provided ff methods, which sit on top of the implemented ones
        "gp.scalar_extras" => {
            let s = need!(sc(&a[0]));
            if a[1].len() != 16 {
                return Out::Rej;
            }
            let v = u128::from_le_bytes(a[1][..].try_into().unwrap());
            let mut o = vec![];
            o.extend_from_slice(Field::cube(&s).as_bytes());
            o.extend_from_slice(Field::pow(&s, [3u64]).as_bytes());
            o.extend_from_slice(Field::pow_vartime(&s, [3u64]).as_bytes());
            o.extend_from_slice(Field::pow_vartime(&s, [v as u64, (v >> 64) as u64]).as_bytes());
            o.push(Field::is_zero_vartime(&s) as u8);
            o.push(PrimeField::is_even(&s).unwrap_u8());
            o.extend_from_slice(<Scalar as PrimeField>::from_u128(v).as_bytes());
            o.extend_from_slice(&opt(<Scalar as PrimeField>::from_str_vartime(&format!("{}", v))));
            o.extend_from_slice(&opt(<Scalar as PrimeField>::from_str_vartime(&format!("0{}", v))));
            Out::Ok(o)
        }
        // [P (Edwards encoding), Q (Edwards encoding), choice]: CofactorGroup / SubgroupPoint surface not covered by
        // gp.cofactor and gp.subgroup_ops
        "gp.point_extras" => {
            let p = need!(pt(&a[0]));
            let q = need!(pt(&a[1]));
            let c = subtle::Choice::from(a[2][0] & 1);
            let mut o = vec![];
            o.push(bool::from(CofactorGroup::is_small_order(&p)) as u8);
            match Option::<SubgroupPoint>::from(CofactorGroup::into_subgroup(p)) {
                Some(x) => {
                    o.push(1);
                    o.extend_from_slice(&GroupEncoding::to_bytes(&x));
                }
                None => o.extend_from_slice(&[0u8; 33]),
            }
            let sa: SubgroupPoint = CofactorGroup::clear_cofactor(&p);
            let sb: SubgroupPoint = CofactorGroup::clear_cofactor(&q);
            o.push(subtle::ConstantTimeEq::ct_eq(&sa, &sb).unwrap_u8());
            o.push((sa == sb) as u8);
            o.push(subtle::ConstantTimeEq::ct_eq(&sa, &sa).unwrap_u8());
            o.extend_from_slice(&GroupEncoding::to_bytes(&<SubgroupPoint as subtle::ConditionallySelectable>::conditional_select(&sa, &sb, c)));
            o.extend_from_slice(&GroupEncoding::to_bytes(&SubgroupPoint::default()));
            let mut z = sa;
            zeroize::Zeroize::zeroize(&mut z);
            o.extend_from_slice(&GroupEncoding::to_bytes(&z));
            o.push(bool::from(Group::is_identity(&(sa - sa))) as u8);
            o.push(bool::from(Group::is_identity(&sa)) as u8);
            o.push(bool::from(CofactorGroup::is_small_order(&EdwardsPoint::from(sa))) as u8);
            // Ristretto: cofactor 1
            let r = RistrettoPoint::mul_base(&Scalar::from(a[2][0] as u64));
            match Option::<RistrettoPoint>::from(CofactorGroup::into_subgroup(r)) {
                Some(x) => {
                    o.push(1);
                    o.extend_from_slice(&GroupEncoding::to_bytes(&x));
                }
                None => o.extend_from_slice(&[0u8; 33]),
            }
            o.push(bool::from(CofactorGroup::is_small_order(&r)) as u8);
            Out::Ok(o)
        }
        // [rng bytes]: Group::random of the three groups fed by a replaying RNG
        "gp.random_points" => {
            let mut o = vec![];
            o.extend_from_slice(&GroupEncoding::to_bytes(&<EdwardsPoint as Group>::random(ByteRng::new(&a[0]))));
            o.extend_from_slice(&GroupEncoding::to_bytes(&<SubgroupPoint as Group>::random(ByteRng::new(&a[0]))));
            o.extend_from_slice(&GroupEncoding::to_bytes(&<RistrettoPoint as Group>::random(ByteRng::new(&a[0]))));
            Out::Ok(o)
        }
        // [valid Edwards encoding] -> clear_cofactor, into_subgroup some?, is_torsion_free, double, is_identity
        "gp.cofactor" => {
            let p = need!(pt(&a[0]));
            let mut o = GroupEncoding::to_bytes(&CofactorGroup::clear_cofactor(&p)).to_vec();
            let sub: Option<SubgroupPoint> = Option::from(CofactorGroup::into_subgroup(p));
            o.push(sub.is_some() as u8);
            o.push(bool::from(CofactorGroup::is_torsion_free(&p)) as u8);
            o.extend_from_slice(&GroupEncoding::to_bytes(&Group::double(&p)));
            o.push(bool::from(Group::is_identity(&p)) as u8);
            o.extend_from_slice(&GroupEncoding::to_bytes(&<EdwardsPoint as Group>::identity()));
            o.extend_from_slice(&GroupEncoding::to_bytes(&<EdwardsPoint as Group>::generator()));
            o.extend_from_slice(&GroupEncoding::to_bytes(&<SubgroupPoint as Group>::identity()));
            o.extend_from_slice(&GroupEncoding::to_bytes(&<SubgroupPoint as Group>::generator()));
            o.extend_from_slice(&GroupEncoding::to_bytes(&<RistrettoPoint as Group>::identity()));
            o.extend_from_slice(&GroupEncoding::to_bytes(&<RistrettoPoint as Group>::generator()));
            Out::Ok(o)
        }
        // [P enc, Q enc (both must be torsion-free), s] -> subgroup operator results
        "gp.subgroup_ops" => {
            let p: SubgroupPoint = need!(Option::from(<SubgroupPoint as GroupEncoding>::from_bytes(&need!(b32(&a[0])))));
            let q: SubgroupPoint = need!(Option::from(<SubgroupPoint as GroupEncoding>::from_bytes(&need!(b32(&a[1])))));
            let s = need!(sc(&a[2]));
            let e: EdwardsPoint = p.into();
            let mut o = vec![];
            // every operator form (see helpers.rs): 6 additions, 6 subtractions, 10 multiplications
            for form in 0..6usize {
                o.extend_from_slice(&GroupEncoding::to_bytes(&crate::add_form!(p, q, form)));
            }
            for form in 0..6usize {
                o.extend_from_slice(&GroupEncoding::to_bytes(&crate::sub_form!(p, q, form)));
            }
            for form in 0..10usize {
                o.extend_from_slice(&GroupEncoding::to_bytes(&crate::mul_form!(p, s, form)));
            }
            for r in [-p, Group::double(&p), [p, q].iter().sum::<SubgroupPoint>(), [p, q].into_iter().sum::<SubgroupPoint>()] {
                o.extend_from_slice(&GroupEncoding::to_bytes(&r));
            }
            // mixed EdwardsPoint (+|-) SubgroupPoint, all forms
            for form in 0..6usize {
                o.extend_from_slice(&GroupEncoding::to_bytes(&crate::add_form!(e, q, form)));
            }
            for form in 0..6usize {
                o.extend_from_slice(&GroupEncoding::to_bytes(&crate::sub_form!(e, q, form)));
            }
            o.push(bool::from(Group::is_identity(&p)) as u8);
            Out::Ok(o)
        }
        _ => Out::Unknown,
    }
}
