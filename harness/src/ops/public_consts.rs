//! Public constants of the three crates.
use super::Out;
use curve25519_dalek::constants as c;

pub fn exec(op: &str, _a: &[Vec<u8>]) -> Out {
    match op {
        "kp.public" => {
            let mut o = vec![];
            o.extend_from_slice(c::ED25519_BASEPOINT_POINT.compress().as_bytes());
            o.extend_from_slice(c::ED25519_BASEPOINT_COMPRESSED.as_bytes());
            o.extend_from_slice(c::RISTRETTO_BASEPOINT_POINT.compress().as_bytes());
            o.extend_from_slice(c::RISTRETTO_BASEPOINT_COMPRESSED.as_bytes());
            o.extend_from_slice(c::X25519_BASEPOINT.as_bytes());
            o.extend_from_slice(&x25519_dalek::X25519_BASEPOINT_BYTES);
            o.extend_from_slice(c::BASEPOINT_ORDER.as_bytes());
            for t in c::EIGHT_TORSION.iter() {
                o.extend_from_slice(t.compress().as_bytes());
            }
            // Edwards basepoint == inner point of the Ristretto basepoint
            o.push((c::RISTRETTO_BASEPOINT_POINT.compress() == c::RISTRETTO_BASEPOINT_COMPRESSED) as u8);
            o.extend_from_slice(&(ed25519_dalek::PUBLIC_KEY_LENGTH as u32).to_le_bytes());
            o.extend_from_slice(&(ed25519_dalek::SECRET_KEY_LENGTH as u32).to_le_bytes());
            o.extend_from_slice(&(ed25519_dalek::KEYPAIR_LENGTH as u32).to_le_bytes());
            o.extend_from_slice(&(ed25519_dalek::SIGNATURE_LENGTH as u32).to_le_bytes());
            Out::Ok(o)
        }
        _ => Out::Unknown,
    }
}
