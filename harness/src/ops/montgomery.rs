//! Montgomery-form operations, X25519, and the Ed25519 <-> X25519 conversions.
use super::edwards::pt;
use super::helpers::*;
use super::scalarmul::sc_any;
use super::Out;
use curve25519_dalek::montgomery::MontgomeryPoint;
use std::collections::hash_map::DefaultHasher;
use std::hash::{Hash, Hasher};
use subtle::ConstantTimeEq;
use x25519_dalek::{EphemeralSecret, PublicKey, ReusableSecret, SharedSecret, StaticSecret};

fn h(m: &MontgomeryPoint) -> u64 {
    let mut s = DefaultHasher::new();
    m.hash(&mut s);
    s.finish()
}

pub fn exec(op: &str, a: &[Vec<u8>]) -> Out {
    macro_rules! need {
        ($e:expr) => {
            match $e {
                Some(x) => x,
                None => return Out::Rej,
            }
        };
    }
    match op {
        "mt.mul" => {
            let u = MontgomeryPoint(need!(b32(&a[0])));
            let s = need!(sc_any(&a[1]));
            let mut o = vec![];
            for form in 0..10usize {
                o.extend_from_slice(crate::mul_form!(u, s, form).as_bytes());
            }
            Out::Ok(o)
        }
        "mt.mul_bits_be" => {
            // [u, nbits (u16 LE), packed bits MSB-first in transmission order]
            let u = MontgomeryPoint(need!(b32(&a[0])));
            let n = u16::from_le_bytes([a[1][0], a[1][1]]) as usize;
            if a[2].len() * 8 < n {
                return Out::Rej;
            }
            let bits: Vec<bool> = (0..n).map(|i| a[2][i / 8] >> (i % 8) & 1 == 1).collect();
            Out::Ok(u.mul_bits_be(bits.into_iter()).to_bytes().to_vec())
        }
        "mt.mul_clamped" => {
            let u = MontgomeryPoint(need!(b32(&a[0])));
            Out::Ok(u.mul_clamped(need!(b32(&a[1]))).to_bytes().to_vec())
        }
        "mt.mul_base" => Out::Ok(MontgomeryPoint::mul_base(&need!(sc_any(&a[0]))).to_bytes().to_vec()),
        "mt.mul_base_clamped" => Out::Ok(MontgomeryPoint::mul_base_clamped(need!(b32(&a[0]))).to_bytes().to_vec()),
        "mt.to_edwards" => {
            let u = MontgomeryPoint(need!(b32(&a[0])));
            let p = need!(u.to_edwards(a[1][0]));
            Out::Ok(p.compress().to_bytes().to_vec())
        }
        "mt.from_edwards" => Out::Ok(need!(pt(&a[0])).to_montgomery().to_bytes().to_vec()),
        "mt.eq" => {
            let (x, y) = (MontgomeryPoint(need!(b32(&a[0]))), MontgomeryPoint(need!(b32(&a[1]))));
            Out::Ok(vec![x.ct_eq(&y).unwrap_u8(), (x == y) as u8, (h(&x) == h(&y)) as u8])
        }
        "x.x25519" => Out::Ok(x25519_dalek::x25519(need!(b32(&a[0])), need!(b32(&a[1]))).to_vec()),
        "x.dh" => {
            // [kind, secret bytes, peer public bytes] -> public || shared || contributory || secret bytes as stored
            let k = need!(b32(&a[1]));
            let peer = PublicKey::from(need!(b32(&a[2])));
            let (public, shared, stored): (PublicKey, SharedSecret, [u8; 32]) = match a[0][0] % 4 {
                0 => {
                    let s = EphemeralSecret::random_from_rng(ByteRng::new(&k));
                    let p = PublicKey::from(&s);
                    (p, s.diffie_hellman(&peer), k)
                }
                1 => {
                    let s = ReusableSecret::random_from_rng(ByteRng::new(&k));
                    let s2 = s.clone();
                    let p = PublicKey::from(&s);
                    let sh = s.diffie_hellman(&peer);
                    // reusable: a second use gives the same result
                    if sh.as_bytes() != s2.diffie_hellman(&peer).as_bytes() {
                        return Out::Ok(b"reusable secret gave two different results".to_vec());
                    }
                    (p, sh, k)
                }
                2 => {
                    let s = StaticSecret::from(k);
                    let p = PublicKey::from(&s);
                    (p, s.diffie_hellman(&peer), s.to_bytes())
                }
                _ => {
                    let s = StaticSecret::random_from_rng(ByteRng::new(&k));
                    let s2 = s.clone();
                    let p = PublicKey::from(&s);
                    // accessor forms of the secret must agree
                    if s.as_bytes() != &s.to_bytes() || <StaticSecret as AsRef<[u8]>>::as_ref(&s) != &k[..] || s2.to_bytes() != k {
                        return Out::Ok(b"StaticSecret accessors disagree".to_vec());
                    }
                    (p, s.diffie_hellman(&peer), s.to_bytes())
                }
            };
            // accessor / comparison forms of the public types
            {
                use std::hash::{Hash, Hasher};
                let hh = |p: &PublicKey| {
                    let mut s = std::collections::hash_map::DefaultHasher::new();
                    p.hash(&mut s);
                    s.finish()
                };
                let again = PublicKey::from(public.to_bytes());
                let mut flipped = public.to_bytes();
                flipped[0] ^= 1;
                let ok = <PublicKey as AsRef<[u8]>>::as_ref(&public) == &public.as_bytes()[..]
                    && <SharedSecret as AsRef<[u8]>>::as_ref(&shared) == &shared.as_bytes()[..]
                    && public == again
                    && hh(&public) == hh(&again)
                    && public != PublicKey::from(flipped);
                if !ok {
                    return Out::Ok(b"PublicKey / SharedSecret accessors or comparisons disagree".to_vec());
                }
            }
            let mut o = public.as_bytes().to_vec();
            o.extend_from_slice(shared.as_bytes());
            o.push(shared.was_contributory() as u8);
            o.extend_from_slice(&stored);
            o.extend_from_slice(&shared.to_bytes());
            Out::Ok(o)
        }
        "x.two_party" => {
            let (ka, kb) = (need!(b32(&a[0])), need!(b32(&a[1])));
            let (sa, sb) = (StaticSecret::from(ka), EphemeralSecret::random_from_rng(ByteRng::new(&kb)));
            let (pa, pb) = (PublicKey::from(&sa), PublicKey::from(&sb));
            let s1 = sa.diffie_hellman(&pb);
            let s2 = sb.diffie_hellman(&pa);
            let mut o = s1.as_bytes().to_vec();
            o.extend_from_slice(s2.as_bytes());
            Out::Ok(o)
        }
        "x.ed_to_x" => {
            // [seed] -> to_scalar_bytes || vk.to_montgomery || PublicKey(StaticSecret(to_scalar_bytes)) || to_scalar
            let sk = ed25519_dalek::SigningKey::from_bytes(&need!(b32(&a[0])));
            let sb = sk.to_scalar_bytes();
            let mut o = sb.to_vec();
            o.extend_from_slice(sk.verifying_key().to_montgomery().as_bytes());
            o.extend_from_slice(PublicKey::from(&StaticSecret::from(sb)).as_bytes());
            o.extend_from_slice(sk.to_scalar().as_bytes());
            o.extend_from_slice(sk.verifying_key().to_edwards().compress().as_bytes());
            Out::Ok(o)
        }
        _ => Out::Unknown,
    }
}
