//! Ed25519: key derivation, signing (pure / prehashed / hazmat), verification variants, batch.
use super::helpers::*;
use super::Out;
use ed25519_dalek::hazmat::{self, ExpandedSecretKey};
use ed25519_dalek::{Signature, Signer, SigningKey, Verifier, VerifyingKey};
use sha2::{Digest, Sha512};
use signature::{DigestSigner, DigestVerifier};

fn sha(msg: &[u8]) -> Sha512 {
    Sha512::new().chain_update(msg)
}
fn pass(b: &[u8]) -> Passthrough {
    let mut h = Passthrough::default();
    digest::Update::update(&mut h, b);
    h
}

/// all verification entry points on one (pk, msg, sig, ctx); one byte each (1 accept / 0 reject)
/// order: verify, verify_strict, raw_verify, verify_prehashed, verify_prehashed_strict,
/// raw_verify_prehashed, Context::verify_digest, DigestVerifier (no context, only when ctx empty)
pub fn verify_all(pk: &[u8; 32], msg: &[u8], sig: &[u8; 64], ctx: &[u8], has_ctx: bool) -> Vec<u8> {
    // the key parsed from an array and from a slice must behave identically (0xEE marks a disagreement)
    let a = verify_all_with(VerifyingKey::from_bytes(pk).ok(), msg, sig, ctx, has_ctx);
    let b = verify_all_with(VerifyingKey::try_from(&pk[..]).ok(), msg, sig, ctx, has_ctx);
    if a == b {
        a
    } else {
        vec![0xEE; 8]
    }
}

fn verify_all_with(vk: Option<VerifyingKey>, msg: &[u8], sig: &[u8; 64], ctx: &[u8], has_ctx: bool) -> Vec<u8> {
    let vk = match vk {
        Some(v) => v,
        None => return vec![0u8; 8],
    };
    let s = Signature::from_bytes(sig);
    let c = if has_ctx { Some(ctx) } else { None };
    let mut o = vec![];
    o.push((vk.verify(msg, &s).is_ok()) as u8);
    o.push((vk.verify_strict(msg, &s).is_ok()) as u8);
    o.push((hazmat::raw_verify::<Sha512>(&vk, msg, &s).is_ok()) as u8);
    o.push((vk.verify_prehashed(sha(msg), c, &s).is_ok()) as u8);
    o.push((vk.verify_prehashed_strict(sha(msg), c, &s).is_ok()) as u8);
    o.push((hazmat::raw_verify_prehashed::<Sha512, Sha512>(&vk, sha(msg), c, &s).is_ok()) as u8);
    o.push(match vk.with_context(ctx) {
        Ok(cx) => cx.verify_digest(sha(msg), &s).is_ok() as u8,
        Err(_) => 0,
    });
    o.push(if ctx.is_empty() { DigestVerifier::<Sha512, Signature>::verify_digest(&vk, sha(msg), &s).is_ok() as u8 } else { 2 });
    o
}

pub fn exec(op: &str, a: &[Vec<u8>]) -> Out {
    macro_rules! need {
        ($e:expr) => {
            match $e {
                Some(x) => x,
                None => return Out::Rej,
            }
        };
    }
    match op {
        "sig.keygen" => {
            let seed = need!(b32(&a[0]));
            let sk = SigningKey::from_bytes(&seed);
            let sk2 = SigningKey::from(seed);
            let sk3 = SigningKey::from(&seed);
            let sk4 = need!(SigningKey::try_from(&seed[..]).ok());
            if !(sk == sk2 && sk2 == sk3 && sk3 == sk4) {
                return Out::Ok(b"constructors disagree".to_vec());
            }
            let mut o = sk.verifying_key().to_bytes().to_vec();
            o.extend_from_slice(&sk.to_keypair_bytes());
            o.extend_from_slice(&sk.to_bytes());
            o.extend_from_slice(sk.to_scalar().as_bytes());
            o.extend_from_slice(VerifyingKey::from(&ExpandedSecretKey::from(&seed)).as_bytes());
            o.extend_from_slice(VerifyingKey::from(&sk).as_bytes());
            o.push(sk.verifying_key().is_weak() as u8);
            // the remaining accessors / conversions / comparisons of the two key types: each flag must be 1
            let vk = sk.verifying_key();
            let mut other_seed = seed;
            other_seed[0] ^= 1;
            let other = SigningKey::from_bytes(&other_seed);
            let hash_of = |k: &VerifyingKey| {
                use std::hash::{Hash, Hasher};
                let mut h = std::collections::hash_map::DefaultHasher::new();
                k.hash(&mut h);
                h.finish()
            };
            let vk2 = need!(VerifyingKey::from_bytes(&vk.to_bytes()).ok());
            let as_point = curve25519_dalek::edwards::EdwardsPoint::from(vk);
            let flags = [
                sk.as_bytes() == &seed,
                <SigningKey as AsRef<VerifyingKey>>::as_ref(&sk) == &vk,
                signature::Keypair::verifying_key(&sk) == vk,
                <VerifyingKey as AsRef<[u8]>>::as_ref(&vk) == &vk.as_bytes()[..],
                hash_of(&vk) == hash_of(&vk2) && vk == vk2,
                vk != other.verifying_key(),
                sk != other && !bool::from(subtle::ConstantTimeEq::ct_eq(&sk, &other)),
                bool::from(subtle::ConstantTimeEq::ct_eq(&sk, &sk2)) && sk.clone() == sk,
                as_point == vk.to_edwards() && as_point.compress().as_bytes() == vk.as_bytes(),
                VerifyingKey::from(as_point).as_bytes() == vk.as_bytes() && VerifyingKey::from(as_point) == vk,
            ];
            for f in flags {
                o.push(f as u8);
            }
            o.extend_from_slice(VerifyingKey::default().as_bytes());
            Out::Ok(o)
        }
        "sig.generate" => {
            let sk = SigningKey::generate(&mut ByteRng::new(&a[0]));
            let mut o = sk.to_bytes().to_vec();
            o.extend_from_slice(sk.verifying_key().as_bytes());
            Out::Ok(o)
        }
        "sig.from_keypair" => {
            let b = need!(b64(&a[0]));
            match SigningKey::from_keypair_bytes(&b) {
                Ok(sk) => Out::Ok(sk.to_keypair_bytes().to_vec()),
                Err(_) => Out::Rej,
            }
        }
        "sig.sign" => {
            let seed = need!(b32(&a[0]));
            let sk = SigningKey::from_bytes(&seed);
            let s1 = sk.sign(&a[1]);
            let s2 = need!(sk.try_sign(&a[1]).ok());
            let esk = ExpandedSecretKey::from(&seed);
            let s3 = hazmat::raw_sign::<Sha512>(&esk, &a[1], &sk.verifying_key());
            let mut o = vec![];
            for s in [s1, s2, s3] {
                o.extend_from_slice(&s.to_bytes());
            }
            // signatures so produced are accepted by every verifier under the matching key
            o.push(sk.verify(&a[1], &s1).is_ok() as u8);
            o.push(sk.verify_strict(&a[1], &s1).is_ok() as u8);
            o.push(Verifier::verify(&sk, &a[1], &s1).is_ok() as u8);
            // ... and refused by the signing key's own verifiers under another message
            let mut m2 = a[1].clone();
            m2.push(1);
            o.push(sk.verify(&m2, &s1).is_ok() as u8);
            o.push(sk.verify_strict(&m2, &s1).is_ok() as u8);
            o.push(Verifier::verify(&sk, &m2, &s1).is_ok() as u8);
            Out::Ok(o)
        }
        "sig.sign_ph" => {
            // [seed, msg, ctx, has_ctx, kind] kind 0: Sha512(msg) as the prehash; 1: Passthrough(msg)
            let seed = need!(b32(&a[0]));
            let sk = SigningKey::from_bytes(&seed);
            let ctx = &a[2];
            let c = if a[3][0] & 1 == 1 { Some(&ctx[..]) } else { None };
            let cx = if c.is_some() { &ctx[..] } else { &[][..] };
            let esk = ExpandedSecretKey::from(&seed);
            let (s1, s2, s3) = if a[4][0] & 1 == 0 {
                (
                    sk.sign_prehashed(sha(&a[1]), c),
                    sk.with_context(cx).map(|k| k.sign_digest(sha(&a[1]))),
                    hazmat::raw_sign_prehashed::<Sha512, Sha512>(&esk, sha(&a[1]), &sk.verifying_key(), c),
                )
            } else {
                (
                    sk.sign_prehashed(pass(&a[1]), c),
                    sk.with_context(cx).map(|k| k.sign_digest(pass(&a[1]))),
                    hazmat::raw_sign_prehashed::<Sha512, Passthrough>(&esk, pass(&a[1]), &sk.verifying_key(), c),
                )
            };
            match (s1, s2, s3) {
                (Ok(x), Ok(y), Ok(z)) => {
                    let mut o = vec![];
                    for s in [x, y, z] {
                        o.extend_from_slice(&s.to_bytes());
                    }
                    if a[4][0] & 1 == 0 {
                        o.push(sk.verify_prehashed(sha(&a[1]), c, &x).is_ok() as u8);
                    } else {
                        o.push(sk.verify_prehashed(pass(&a[1]), c, &x).is_ok() as u8);
                    }
                    if cx.is_empty() {
                        // DigestSigner without a context equals the empty context
                        let s4: Signature = if a[4][0] & 1 == 0 { sk.sign_digest(sha(&a[1])) } else { sk.sign_digest(pass(&a[1])) };
                        o.extend_from_slice(&s4.to_bytes());
                    }
                    Out::Ok(o)
                }
                (Err(_), Err(_), Err(_)) => Out::Rej,
                _ => Out::Ok(b"prehashed signers disagree on refusing the context".to_vec()),
            }
        }
        "sig.expanded" => {
            // [64-byte expanded key, msg] -> derived vk || signature
            let esk = ExpandedSecretKey::from_bytes(&need!(b64(&a[0])));
            let esk2 = need!(ExpandedSecretKey::from_slice(&a[0]).ok());
            let vk = VerifyingKey::from(&esk);
            let s = hazmat::raw_sign::<Sha512>(&esk, &a[1], &vk);
            let s2 = hazmat::raw_sign::<Sha512>(&esk2, &a[1], &vk);
            let mut o = vk.as_bytes().to_vec();
            o.extend_from_slice(&s.to_bytes());
            o.extend_from_slice(&s2.to_bytes());
            Out::Ok(o)
        }
        "sig.verify" => {
            // [pk, msg, sig, ctx, has_ctx]
            let pk = need!(b32(&a[0]));
            let sig = need!(b64(&a[2]));
            if a[3].len() > 255 {
                return Out::Rej; // documented domain of the prehashed verifiers
            }
            Out::Ok(verify_all(&pk, &a[1], &sig, &a[3], a[4][0] & 1 == 1))
        }
        // [pk1, pk2]: equality and hashing of verifying keys are defined on the key BYTES (two encodings of the
        // same point are different keys: the bytes enter the challenge hash)
        "sig.key_eq" => {
            let (k1, k2) = (need!(b32(&a[0])), need!(b32(&a[1])));
            let (v1, v2) = match (VerifyingKey::from_bytes(&k1), VerifyingKey::from_bytes(&k2)) {
                (Ok(x), Ok(y)) => (x, y),
                _ => return Out::Rej,
            };
            let hh = |k: &VerifyingKey| {
                use std::hash::{Hash, Hasher};
                let mut s = std::collections::hash_map::DefaultHasher::new();
                k.hash(&mut s);
                s.finish()
            };
            Out::Ok(vec![(v1 == v2) as u8, (hh(&v1) == hh(&v2)) as u8, (v1.to_bytes() == k1) as u8, (v1.to_edwards() == v2.to_edwards()) as u8])
        }
        // [seed, msg, sig, ctx, has_ctx]: the verifiers offered by the SIGNING key (they wrap its verifying key):
        // verify, verify_strict, Verifier::verify, verify_prehashed
        "sig.verify_sk" => {
            let seed = need!(b32(&a[0]));
            let sig = Signature::from_bytes(&need!(b64(&a[2])));
            if a[3].len() > 255 {
                return Out::Rej;
            }
            let sk = SigningKey::from_bytes(&seed);
            let c = if a[4][0] & 1 == 1 { Some(&a[3][..]) } else { None };
            Out::Ok(vec![
                sk.verify(&a[1], &sig).is_ok() as u8,
                sk.verify_strict(&a[1], &sig).is_ok() as u8,
                Verifier::verify(&sk, &a[1], &sig).is_ok() as u8,
                sk.verify_prehashed(sha(&a[1]), c, &sig).is_ok() as u8,
            ])
        }
        "sig.batch" => {
            // [n_msgs (u16), msgs as (u16 len || bytes)*, sigs (k x 64), keys (m x 32), calls]
            let n = u16::from_le_bytes([a[0][0], a[0][1]]) as usize;
            let mut msgs: Vec<&[u8]> = vec![];
            let mut p = 0usize;
            for _ in 0..n {
                if p + 2 > a[1].len() {
                    return Out::Rej;
                }
                let l = u16::from_le_bytes([a[1][p], a[1][p + 1]]) as usize;
                p += 2;
                if p + l > a[1].len() {
                    return Out::Rej;
                }
                msgs.push(&a[1][p..p + l]);
                p += l;
            }
            if a[2].len() % 64 != 0 || a[3].len() % 32 != 0 {
                return Out::Rej;
            }
            let sigs: Vec<Signature> = a[2].chunks(64).map(|c| Signature::from_bytes(c.try_into().unwrap())).collect();
            let mut keys = vec![];
            for k in a[3].chunks(32) {
                keys.push(need!(VerifyingKey::from_bytes(k.try_into().unwrap()).ok()));
            }
            let calls = a[4][0].max(1);
            let mut o = vec![];
            for _ in 0..calls {
                o.push(ed25519_dalek::verify_batch(&msgs, &sigs, &keys).is_ok() as u8);
            }
            Out::Ok(o)
        }
        "sig.parse" => {
            // Signature / key parsing helpers: [64 bytes] -> components
            let s = Signature::from_bytes(&need!(b64(&a[0])));
            let mut o = s.r_bytes().to_vec();
            o.extend_from_slice(s.s_bytes());
            o.extend_from_slice(&s.to_bytes());
            Out::Ok(o)
        }
        _ => Out::Unknown,
    }
}
