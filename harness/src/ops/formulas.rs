//! C11 layers 2-3: group formulas started from coordinates whose *representations* sit at the
//! stored-coordinate bound, next to the same formulas on the canonical representations of the same
//! field values (representation independence). Hook builds only.
use super::field::operand;
use super::Out;
use curve25519_dalek::edwards::EdwardsPoint;
use curve25519_dalek::traits::MultiscalarMul;
use curve25519_dalek::verif_hooks as h;
use curve25519_dalek::verif_hooks::Fe;
use subtle::ConstantTimeEq;

fn canon(f: &Fe) -> Fe {
    Fe::from_bytes(&f.as_bytes())
}
fn coords_bytes(p: &EdwardsPoint) -> Vec<u8> {
    let mut o = vec![];
    for f in h::edwards_coords(p).iter() {
        o.extend_from_slice(&f.as_bytes());
    }
    o
}
fn fes_bytes(v: &[Fe]) -> Vec<u8> {
    let mut o = vec![];
    for f in v {
        o.extend_from_slice(&f.as_bytes());
    }
    o
}

fn serial_op(opc: u8, p: &[Fe; 4], q: &[Fe; 4], extra: &[u8]) -> Option<Vec<u8>> {
    let pp = h::edwards_from_coords(p);
    let qq = h::edwards_from_coords(q);
    Some(match opc {
        0 => coords_bytes(&(&pp + &qq)),
        1 => coords_bytes(&(&pp - &qq)),
        2 => coords_bytes(&h::edwards_double(&pp)),
        3 => coords_bytes(&h::edwards_mul_by_pow_2(&pp, 1 + (extra.first().copied().unwrap_or(0) % 5) as u32)),
        4 => coords_bytes(&(-&pp)),
        5 => pp.compress().to_bytes().to_vec(),
        6 => pp.to_montgomery().to_bytes().to_vec(),
        7 => vec![pp.ct_eq(&qq).unwrap_u8()],
        8 => fes_bytes(&h::as_projective_niels(&pp)),
        9 => fes_bytes(&h::as_affine_niels(&pp)),
        10 => h::ristretto_from_edwards(&pp).compress().to_bytes().to_vec(),
        11 => vec![h::ristretto_from_edwards(&pp).ct_eq(&h::ristretto_from_edwards(&qq)).unwrap_u8()],
        12 => {
            let s = super::scalarmul::sc_any(extra)?;
            coords_bytes(&(&pp * &s))
        }
        13 => {
            let n = h::as_projective_niels(&qq);
            let mut o = fes_bytes(&h::add_projective_niels(&pp, &n, false));
            o.extend_from_slice(&fes_bytes(&h::add_projective_niels(&pp, &n, true)));
            o
        }
        14 => {
            let n = [q[0], q[1], q[3]]; // any three field values as an affine Niels point
            let mut o = fes_bytes(&h::add_affine_niels(&pp, &n, false));
            o.extend_from_slice(&fes_bytes(&h::add_affine_niels(&pp, &n, true)));
            o
        }
        15 => {
            let c = h::projective_double(&[p[0], p[1], p[2]]);
            let mut o = fes_bytes(&c);
            o.extend_from_slice(&coords_bytes(&h::completed_as_extended(&c)));
            o.extend_from_slice(&fes_bytes(&h::completed_as_projective(&c)));
            o
        }
        16 => {
            let r = h::elligator_ristretto_flavor(&p[0]);
            coords_bytes(&h::ristretto_inner(&r))
        }
        17 => h::montgomery_elligator_encode(&p[0]).to_bytes().to_vec(),
        18 => {
            let v = curve25519_dalek::ristretto::RistrettoPoint::double_and_compress_batch(&[h::ristretto_from_edwards(&pp), h::ristretto_from_edwards(&qq)]);
            let mut o = v[0].to_bytes().to_vec();
            o.extend_from_slice(v[1].as_bytes());
            o
        }
        19 => {
            let s = super::scalarmul::sc_any(extra)?;
            coords_bytes(&EdwardsPoint::multiscalar_mul(&[s, s], &[pp, qq]))
        }
        _ => return None,
    })
}

#[cfg(not(any(curve25519_dalek_backend = "serial", curve25519_dalek_backend = "fiat")))]
fn avx2_op(opc: u8, e: &h::avx2::V4, c: &h::avx2::V4, extra: &[u8]) -> Option<Vec<u8>> {
    use h::avx2 as v;
    let out = match opc {
        0 => v::extended_double(e),
        1 => v::extended_add_cached(e, c, false),
        2 => v::extended_add_cached(e, c, true),
        3 => v::cached_from_extended(e),
        4 => v::extended_mul_by_pow_2(e, 1 + (extra.first().copied().unwrap_or(0) % 5) as u32),
        5 => v::extended_add_cached(e, &v::cached_neg(c), false),
        6 => v::extended_add_cached(e, &v::cached_from_extended(&v::extended_double(e)), false),
        _ => return None,
    };
    Some(fes_bytes(&out.split()))
}

#[cfg(curve25519_dalek_backend = "unstable_avx512")]
fn ifma_op(opc: u8, e: &h::ifma::U4, c: &h::ifma::R4, extra: &[u8]) -> Option<Vec<u8>> {
    use h::ifma as v;
    let out = match opc {
        0 => v::extended_double(e),
        1 => v::extended_add_cached(e, c, false),
        2 => v::extended_add_cached(e, c, true),
        3 => v::cached_from_extended(e).unreduced(),
        4 => v::extended_mul_by_pow_2(e, 1 + (extra.first().copied().unwrap_or(0) % 5) as u32),
        5 => v::extended_add_cached(e, &v::cached_neg(c), false),
        6 => v::extended_add_cached(e, &v::cached_from_extended(&v::extended_double(e)), false),
        _ => return None,
    };
    Some(fes_bytes(&out.split()))
}

pub fn exec(op: &str, a: &[Vec<u8>]) -> Out {
    match op {
        // [opcode, 4 coords of P, 4 coords of Q, extra] -> raw-path result || canonical-path result
        "fz.serial" => {
            if a.len() != 10 {
                return Out::Rej;
            }
            let mut c = vec![];
            for i in 1..9 {
                match operand(&a[i]) {
                    Some(f) => c.push(f),
                    None => return Out::Rej,
                }
            }
            let p = [c[0], c[1], c[2], c[3]];
            let q = [c[4], c[5], c[6], c[7]];
            let pc = [canon(&c[0]), canon(&c[1]), canon(&c[2]), canon(&c[3])];
            let qc = [canon(&c[4]), canon(&c[5]), canon(&c[6]), canon(&c[7])];
            let r1 = match serial_op(a[0][0], &p, &q, &a[9]) {
                Some(x) => x,
                None => return Out::Rej,
            };
            let r2 = serial_op(a[0][0], &pc, &qc, &a[9]).unwrap();
            let mut o = r1;
            o.extend_from_slice(&r2);
            Out::Ok(o)
        }
        #[cfg(not(any(curve25519_dalek_backend = "serial", curve25519_dalek_backend = "fiat")))]
        "fz.avx2" => {
            use h::avx2::V4;
            if !std::is_x86_feature_detected!("avx2") {
                return Out::Unknown;
            }
            let (e, c) = match (super::vector::avx2::operand(&a[1]), super::vector::avx2::operand(&a[2])) {
                (Some(e), Some(c)) => (e, c),
                _ => return Out::Rej,
            };
            let es = e.split();
            let cs = c.split();
            let ec = V4::new(&canon(&es[0]), &canon(&es[1]), &canon(&es[2]), &canon(&es[3]));
            let cc = V4::new(&canon(&cs[0]), &canon(&cs[1]), &canon(&cs[2]), &canon(&cs[3]));
            let r1 = match avx2_op(a[0][0], &e, &c, &a[3]) {
                Some(x) => x,
                None => return Out::Rej,
            };
            let mut o = r1;
            o.extend_from_slice(&avx2_op(a[0][0], &ec, &cc, &a[3]).unwrap());
            Out::Ok(o)
        }
        #[cfg(curve25519_dalek_backend = "unstable_avx512")]
        "fz.ifma" => {
            use h::ifma::{R4, U4};
            if !(std::is_x86_feature_detected!("avx512ifma") && std::is_x86_feature_detected!("avx512vl")) {
                return Out::Unknown;
            }
            // the extended point is the real kernel's product of two reduced operands (what a previous
            // formula step would have stored); the cached point is a reduced operand
            let (x, y, c) = match (super::vector::ifma::reduced(&a[1]), super::vector::ifma::reduced(&a[2]), super::vector::ifma::reduced(&a[3])) {
                (Some(x), Some(y), Some(c)) => (x, y, c),
                _ => return Out::Rej,
            };
            let e: U4 = x.mul(&y);
            let es = e.split();
            let cs = c.unreduced().split();
            let ec = U4::new(&canon(&es[0]), &canon(&es[1]), &canon(&es[2]), &canon(&es[3]));
            let cc: R4 = U4::new(&canon(&cs[0]), &canon(&cs[1]), &canon(&cs[2]), &canon(&cs[3])).reduce();
            let r1 = match ifma_op(a[0][0], &e, &c, &a[4]) {
                Some(x) => x,
                None => return Out::Rej,
            };
            let mut o = r1;
            o.extend_from_slice(&ifma_op(a[0][0], &ec, &cc, &a[4]).unwrap());
            Out::Ok(o)
        }
        _ => Out::Unknown,
    }
}
