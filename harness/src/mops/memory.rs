//! C14 expectations: freed heap contents independent of the secrets, no secret windows, zeroize results.
use crate::model::ed::Aff;
use crate::model::rist;
use crate::model::sc::Sc;
use crate::req::{Req, Resp};
use crate::util::a32;

pub fn oracle(req: &Req, got: &Resp) -> Result<(), String> {
    let b = match got {
        Resp::Ok(b) => b,
        Resp::Rej => return Ok(()), // malformed / out-of-domain request refused by the harness
        g => return Err(format!("{}: {}", req.op, g.short())),
    };
    match req.op.as_str() {
        "mem.msm" | "mem.batch_invert" => {
            let what = if req.op == "mem.msm" { "constant-time multiscalar_mul" } else { "Scalar::batch_invert" };
            if b[1] == 1 || b[2] == 1 {
                return Err(format!("{}: a block returned to the allocator still contains bytes derived from the secret scalars (scalar bytes / radix-16 digits / partial products)", what));
            }
            if b[0] != 1 {
                return Err(format!("{}: the contents of the freed heap blocks differ between two runs that differ only in the secret scalars", what));
            }
            Ok(())
        }
        "mem.drop" => {
            if b[0] == 1 {
                return Err(format!("mem.drop type {}: the object's storage still contains secret bytes after drop", req.a[0][0]));
            }
            // the pure-secret types must be all zero; SigningKey keeps its public half
            let t = req.a[0][0] % 6;
            if t >= 2 && t <= 4 && b[1] != 1 {
                return Err(format!("mem.drop type {}: storage not zero after drop", req.a[0][0]));
            }
            Ok(())
        }
        "mem.zeroize" => {
            let want: Vec<u8> = match req.a[0][0] {
                0 | 5 | 7 | 8 | 9 | 11 | 12 => vec![0u8; 32],
                6 => { let mut v = vec![0u8; 32]; v.push(1); v }
                1 => { let mut v = Aff::IDENTITY.compress().to_vec(); v.extend_from_slice(&[1, 1]); v }
                2 => Aff::IDENTITY.compress().to_vec(),
                3 => { let mut v = rist::encode(&Aff::IDENTITY).to_vec(); v.extend_from_slice(&[1, 1]); v }
                4 => vec![0u8; 32],
                10 => vec![1, 1],
                _ => return Err("type".into()),
            };
            if *b == want { Ok(()) } else { Err(format!("zeroize() of type {} left {} (expected {})", req.a[0][0], crate::util::hex(b), crate::util::hex(&want))) }
        }
        _ => Err("no oracle".into()),
    }
}

pub fn valid_point(ty: u8, b: &[u8]) -> bool {
    match ty {
        1 => Aff::decompress(&a32(b)).is_some(),
        3 => rist::decode(&a32(b)).is_some(),
        _ => true,
    }
}
pub fn _unused() -> Sc {
    Sc::ZERO
}
