//! Oracles for the ff / group trait implementations.
use crate::model::big::U256;
use crate::model::ed::Aff;
use crate::model::rist;
use crate::model::sc::{self, Sc};
use crate::req::{Req, Resp};
use crate::util::{a32, a64, hex};

fn can(b: &[u8]) -> Option<Sc> {
    if b.len() != 32 {
        return None;
    }
    Sc::from_canonical(&a32(b))
}
fn rd(b: &[u8], off: usize) -> Sc {
    Sc(U256::from_le(&a32(&b[off..off + 32])))
}
fn ptab(b: &[u8]) -> Option<Aff> {
    if b.len() != 32 {
        return None;
    }
    Aff::decompress(&a32(b))
}

pub fn oracle(req: &Req, got: &Resp) -> Result<(), String> {
    let a = &req.a;
    macro_rules! need {
        ($e:expr) => {
            match $e {
                Some(x) => x,
                None => return if *got == Resp::Rej { Ok(()) } else { Err(format!("{}: malformed input must be refused, got {}", req.op, got.short())) },
            }
        };
    }
    let b = match got {
        Resp::Ok(b) => b,
        Resp::Rej => {
            // only legitimate when an input is malformed (handled by need!) - re-derive below
            &Vec::new()
        }
        g => return Err(format!("{}: {}", req.op, g.short())),
    };
    let rej = *got == Resp::Rej;
    match req.op.as_str() {
        "gp.field" => {
            let s = need!(can(&a[0]));
            if rej || b.len() != 33 + 33 + 32 * 3 + 2 + 32 {
                return Err(format!("gp.field: {}", got.short()));
            }
            let leg = s.legendre();
            let (some, r) = (b[0] == 1, rd(b, 1));
            if some != (leg != 2) {
                return Err(format!("sqrt({}) is_some = {} but the Legendre symbol is {}", hex(&a[0]), some, if leg == 2 { -1 } else { leg as i32 }));
            }
            if some && r.mul(&r) != s {
                return Err("sqrt: r^2 != x".into());
            }
            if !some && !r.is_zero() && false {
                return Err("sqrt: none value".into());
            }
            let (isome, inv) = (b[33] == 1, rd(b, 34));
            if isome == s.is_zero() {
                return Err("Field::invert must be None exactly for zero".into());
            }
            if isome && inv != s.inv() {
                return Err("Field::invert differs from the inverse".into());
            }
            if rd(b, 66) != s.mul(&s) || rd(b, 98) != s.add(&s) || b[130..162] != a[0][..] {
                return Err("square / double / to_repr".into());
            }
            if b[162] != a[0][0] & 1 || b[163] != s.is_zero() as u8 || b[164..196] != a[0][..] {
                return Err("is_odd / is_zero / to_le_bits".into());
            }
            Ok(())
        }
        "gp.sqrt_ratio" => {
            let (n, d) = (need!(can(&a[0])), need!(can(&a[1])));
            if rej || b.len() != 66 {
                return Err(format!("gp.sqrt_ratio: {}", got.short()));
            }
            let (flag, r) = (b[0], rd(b, 1));
            // ff 0.13 contract of sqrt_ratio(num, div)
            if d.is_zero() {
                if n.is_zero() {
                    if !(flag == 1 && r.is_zero()) { return Err("sqrt_ratio(0, 0) must be (1, 0)".into()); }
                } else if !(flag == 0 && r.is_zero()) {
                    return Err("sqrt_ratio(num != 0, 0) must be (0, 0)".into());
                }
            } else if n.is_zero() {
                if !(flag == 1 && r.is_zero()) { return Err("sqrt_ratio(0, div) must be (1, 0)".into()); }
            } else {
                let q = n.mul(&d.inv());
                if q.legendre() == 1 {
                    if !(flag == 1 && r.mul(&r) == q) { return Err("sqrt_ratio of a square ratio must return (1, root)".into()); }
                } else {
                    // (0, sqrt(G_S * num/div)) for the fixed non-square G_S = ROOT_OF_UNITY
                    if flag != 0 { return Err("sqrt_ratio of a non-square ratio returned flag 1".into()); }
                    let g = r.mul(&r).mul(&q.inv());
                    if g.legendre() != 2 { return Err("sqrt_ratio: r^2 / (num/div) is not a non-square".into()); }
                    // G_S is unspecified by ff, but must be one fixed non-square: the first value seen
                    // in this process is remembered and every later one must equal it
                    static GS: std::sync::OnceLock<Sc> = std::sync::OnceLock::new();
                    let first = *GS.get_or_init(|| g);
                    if g != first { return Err("sqrt_ratio: G_S = r^2 / (num/div) is not the same constant in every case".into()); }
                }
            }
            // sqrt_alt(x) = sqrt_ratio(x, 1)
            let (f2, r2) = (b[33], rd(b, 34));
            if n.is_zero() || n.legendre() == 1 {
                if !(f2 == 1 && r2.mul(&r2) == n) { return Err("sqrt_alt of a square".into()); }
            } else if f2 != 0 {
                return Err("sqrt_alt of a non-square returned flag 1".into());
            }
            Ok(())
        }
        "gp.from_repr" => {
            if a[0].len() != 32 { return if rej { Ok(()) } else { Err("from_repr length".into()) }; }
            let ok = U256::from_le(&a32(&a[0])) < sc::l();
            if rej || b.len() != 66 { return Err(format!("gp.from_repr: {}", got.short())); }
            for off in [0usize, 33] {
                if (b[off] == 1) != ok { return Err(format!("from_repr{} accepts iff < l violated for {}", if off == 0 { "" } else { "_vartime" }, hex(&a[0]))); }
                if ok && b[off + 1..off + 33] != a[0][..] { return Err("from_repr value".into()); }
            }
            Ok(())
        }
        "gp.from_uniform" => {
            if a[0].len() != 64 { return if rej { Ok(()) } else { Err("length".into()) }; }
            if !rej && b[..] == Sc::from_bytes_mod_order_wide(&a64(&a[0])).to_bytes()[..] { Ok(()) } else { Err("from_uniform_bytes".into()) }
        }
        "gp.random" => {
            let mut w = [0u8; 64];
            for i in 0..64 { w[i] = if a[0].is_empty() { 0 } else { a[0][i % a[0].len()] }; }
            if !rej && b[..] == Sc::from_bytes_mod_order_wide(&w).to_bytes()[..] { Ok(()) } else { Err("Field::random".into()) }
        }
        "gp.consts" => {
            if rej { return Err("gp.consts rejected".into()); }
            let ml = b[0] as usize;
            let modulus = std::str::from_utf8(&b[1..1 + ml]).map_err(|_| "MODULUS utf8")?;
            if U256::from_hex_be(modulus) != sc::l() { return Err("MODULUS does not parse to l".into()); }
            let mut p = 1 + ml;
            let u = |p: &mut usize| { let v = u32::from_le_bytes(b[*p..*p + 4].try_into().unwrap()); *p += 4; v };
            let (num_bits, capacity, s) = (u(&mut p), u(&mut p), u(&mut p));
            if num_bits != 253 || capacity != 252 { return Err("NUM_BITS / CAPACITY".into()); }
            // l - 1 = 2^S * t with t odd
            let lm1 = sc::l().wrapping_sub(&U256::ONE);
            let mut s_true = 0;
            while !lm1.bit(s_true) { s_true += 1; }
            if s as usize != s_true { return Err(format!("S = {} but l-1 = 2^{} * odd", s, s_true)); }
            let c = |i: usize| rd(b, p + 32 * i);
            let (two_inv, g, rou, rou_inv, delta, zero, one) = (c(0), c(1), c(2), c(3), c(4), c(5), c(6));
            if two_inv.add(&two_inv) != Sc::ONE { return Err("2 * TWO_INV != 1".into()); }
            if g.legendre() != 2 { return Err("MULTIPLICATIVE_GENERATOR is a quadratic residue".into()); }
            let t = lm1.shr(s_true);
            if rou != g.pow(&t) { return Err("ROOT_OF_UNITY != g^((l-1)/2^S)".into()); }
            if rou.mul(&rou) != Sc::ONE.neg() || rou.pow(&U256::from_u64(4)) != Sc::ONE { return Err("ROOT_OF_UNITY order".into()); }
            if rou.mul(&rou_inv) != Sc::ONE { return Err("ROOT_OF_UNITY * ROOT_OF_UNITY_INV != 1".into()); }
            if delta != g.pow(&U256::from_u64(1 << s_true)) { return Err("DELTA != g^(2^S)".into()); }
            // g must GENERATE F_l^*: g^((l-1)/q) != 1 for every prime q | l-1 = 2^2 * 3 * 11 * P1 * P2 (the product is
            // re-checked here; P1, P2 pass Miller-Rabin to 12 bases, computed once with Python integers). A g of
            // smaller order passes all the relations above (seeded change C12g).
            let p1 = U256::from_dec("198211423230930754013084525763697");
            let p2 = U256::from_dec("276602624281642239937218680557139826668747");
            let prod = p1.mul_wide(&p2).lo().mul_wide(&U256::from_u64(132));
            if !prod.hi().is_zero() || prod.lo() != lm1 || !p1.mul_wide(&p2).hi().is_zero() { return Err("model: factorisation of l-1".into()); }
            let div = |q: &U256| -> U256 {
                // (l-1) / q by the known cofactors
                let others: Vec<U256> = [U256::from_u64(2), U256::from_u64(3), U256::from_u64(11), p1, p2].iter().filter(|x| *x != q).cloned().collect();
                let mut e = if *q == U256::from_u64(2) { U256::from_u64(2) } else { U256::from_u64(4) };
                for o in others.iter().filter(|x| **x != U256::from_u64(2)) { e = e.mul_wide(o).lo(); }
                e
            };
            for q in [U256::from_u64(2), U256::from_u64(3), U256::from_u64(11), p1, p2] {
                if g.pow(&div(&q)) == Sc::ONE { return Err(format!("MULTIPLICATIVE_GENERATOR does not generate the multiplicative group: g^((l-1)/q) = 1 for the prime factor q = {:?}", q.to_le())); }
            }
            if !zero.is_zero() || one != Sc::ONE { return Err("ZERO / ONE".into()); }
            if b[p + 32 * 7..p + 32 * 8] != sc::l().to_le()[..] { return Err("char_le_bits".into()); }
            Ok(())
        }
        "gp.ed_encoding" => {
            if a[0].len() != 32 { return if rej { Ok(()) } else { Err("length".into()) }; }
            if rej || b.len() != 132 { return Err(format!("gp.ed_encoding: {}", got.short())); }
            let m = ptab(&a[0]);
            for k in 0..4 {
                let off = 33 * k;
                let want_some = match (&m, k) { (None, _) => false, (Some(_), 0) | (Some(_), 1) => true, (Some(p), _) => p.is_torsion_free() };
                if (b[off] == 1) != want_some {
                    return Err(format!("{}::from_bytes{} on {}: is_some = {} but the model says {}", if k < 2 { "EdwardsPoint" } else { "SubgroupPoint" }, if k % 2 == 1 { "_unchecked" } else { "" }, hex(&a[0]), b[off] == 1, want_some));
                }
                if want_some && b[off + 1..off + 33] != m.unwrap().compress()[..] { return Err("GroupEncoding::to_bytes differs from compress".into()); }
            }
            Ok(())
        }
        "gp.rs_encoding" => {
            if a[0].len() != 32 { return if rej { Ok(()) } else { Err("length".into()) }; }
            if rej || b.len() != 198 { return Err(format!("gp.rs_encoding: {}", got.short())); }
            let m = rist::decode(&a32(&a[0]));
            for k in 0..2 {
                let off = 99 * k;
                if (b[off] == 1) != m.is_some() { return Err(format!("RistrettoPoint::from_bytes on {}: is_some = {}", hex(&a[0]), b[off] == 1)); }
                if let Some(p) = m {
                    let e = rist::encode(&p);
                    if b[off + 1..off + 33] != e[..] || b[off + 33] != 1 || b[off + 34..off + 66] != e[..] || b[off + 66..off + 98] != rist::encode(&p.dbl())[..] || b[off + 98] != rist::equal(&p, &Aff::IDENTITY) as u8 {
                        return Err("RistrettoPoint group traits".into());
                    }
                }
            }
            Ok(())
        }
        "gp.rs_group" => {
            if a[0].len() != 64 { return if rej { Ok(()) } else { Err("length".into()) }; }
            if rej || b.len() != 32 + 1 + 32 + 3 + 32 + 2 + 32 + 32 + 2 { return Err(format!("gp.rs_group: {}", got.short())); }
            let p = rist::from_uniform_bytes(&a64(&a[0]));
            let e = rist::encode(&p);
            let z = [0u8; 32];
            let pid = rist::equal(&p, &Aff::IDENTITY) as u8;
            let mut want = vec![];
            want.extend_from_slice(&e);
            want.push(pid);
            want.extend_from_slice(&z);
            want.extend_from_slice(&[1, 1, 1]);
            want.extend_from_slice(&z);
            want.extend_from_slice(&[1, 1]);
            want.extend_from_slice(&e);
            want.extend_from_slice(&z);
            want.extend_from_slice(&[1, 1]);
            if b[..] != want[..] {
                let i = (0..b.len()).find(|i| b[*i] != want[*i]).unwrap();
                return Err(format!("RistrettoPoint group traits on P = from_uniform_bytes(..) and D = P - decompress(compress(P)) (the identity element, generally with a torsion representative): output byte {} is {} instead of {} (layout: bytes(P) 0..32, is_identity(P) 32, bytes(D) 33..65, Group::is_identity(D) 65, ct_eq(D, identity) 66, D == identity 67, bytes(2D) 68..100, is_torsion_free(D) 100, is_torsion_free(P) 101, bytes(clear_cofactor(P)) 102..134, bytes(2P-P-P') 134..166, is_identity 166, IsIdentity 167)", i, b[i], want[i]));
            }
            Ok(())
        }
        "gp.scalar_extras" => {
            let s = need!(can(&a[0]));
            if a[1].len() != 16 { return if rej { Ok(()) } else { Err("length".into()) }; }
            if rej || b.len() != 32 * 4 + 2 + 32 + 33 + 33 { return Err(format!("gp.scalar_extras: {}", got.short())); }
            let v = u128::from_le_bytes(a[1][..].try_into().unwrap());
            let s3 = s.mul(&s).mul(&s);
            let vs = Sc::from_u256(&U256::from_u128(v));
            if rd(b, 0) != s3 || rd(b, 32) != s3 || rd(b, 64) != s3 { return Err("Field::cube / pow / pow_vartime with exponent 3".into()); }
            if rd(b, 96) != s.pow(&U256::from_u128(v)) { return Err("Field::pow_vartime with a 128-bit exponent".into()); }
            if b[128] != s.is_zero() as u8 || b[129] != 1 - (a[0][0] & 1) { return Err("is_zero_vartime / is_even".into()); }
            if rd(b, 130) != vs { return Err("PrimeField::from_u128".into()); }
            if b[162] != 1 || rd(b, 163) != vs { return Err("PrimeField::from_str_vartime of a decimal string".into()); }
            // a leading zero is refused by ff's parser unless the string is exactly "0"
            let lead_ok = false;
            if (b[195] == 1) != lead_ok && !(v == 0 && b[195] == 0) { return Err("PrimeField::from_str_vartime accepted a decimal string with a leading zero".into()); }
            Ok(())
        }
        "gp.point_extras" => {
            let (p, q) = (need!(ptab(&a[0])), need!(ptab(&a[1])));
            if rej || b.len() != 1 + 33 + 3 + 32 * 3 + 3 + 33 + 1 { return Err(format!("gp.point_extras: {}", got.short())); }
            let c = a[2][0] & 1;
            let (sa, sb) = (p.mul8(), q.mul8());
            if b[0] != p.mul8().is_identity() as u8 { return Err("CofactorGroup::is_small_order(EdwardsPoint)".into()); }
            let tf = p.is_torsion_free();
            if (b[1] == 1) != tf || (tf && b[2..34] != p.compress()[..]) { return Err("CofactorGroup::into_subgroup: is_some / value".into()); }
            let eq = (sa == sb) as u8;
            if b[34] != eq || b[35] != eq || b[36] != 1 { return Err("SubgroupPoint ct_eq / ==".into()); }
            let sel = if c == 1 { &sb } else { &sa };
            if b[37..69] != sel.compress()[..] { return Err("SubgroupPoint::conditional_select".into()); }
            let idb = Aff::IDENTITY.compress();
            if b[69..101] != idb[..] { return Err("SubgroupPoint::default() is not the identity".into()); }
            if b[101..133] != idb[..] { return Err("SubgroupPoint::zeroize() does not leave the identity".into()); }
            if b[133] != 1 || b[134] != sa.is_identity() as u8 || b[135] != sa.is_identity() as u8 { return Err("Group::is_identity on SubgroupPoint / is_small_order of a subgroup point".into()); }
            let r = Aff::basepoint().mul(&U256::from_u128(a[2][0] as u128));
            if b[136] != 1 || b[137..169] != rist::encode(&r)[..] { return Err("RistrettoPoint::into_subgroup".into()); }
            if b[169] != r.is_identity() as u8 { return Err("CofactorGroup::is_small_order(RistrettoPoint) (cofactor 1: only the identity has small order)".into()); }
            Ok(())
        }
        "gp.random_points" => {
            if rej || b.len() != 96 { return Err(format!("gp.random_points: {}", got.short())); }
            let d = &a[0];
            let byte = |i: usize| if d.is_empty() { 0 } else { d[i % d.len()] };
            // Edwards: 32-byte chunks until one decodes to a non-identity point
            let mut want_e = None;
            for k in 0..64 {
                let mut c = [0u8; 32];
                for i in 0..32 { c[i] = byte(32 * k + i); }
                if let Some(p) = Aff::decompress(&c) { if !p.is_identity() { want_e = Some(p); break; } }
            }
            let want_e = want_e.ok_or("model: the generator must provide a decodable chunk")?;
            if b[..32] != want_e.compress()[..] { return Err("<EdwardsPoint as Group>::random: not the first decodable non-identity chunk of the RNG stream".into()); }
            // Subgroup: 64-byte chunks reduced mod l until non-zero; s*B
            let mut want_s = None;
            for k in 0..64 {
                let mut c = [0u8; 64];
                for i in 0..64 { c[i] = byte(64 * k + i); }
                let s = Sc::from_bytes_mod_order_wide(&c);
                if !s.is_zero() { want_s = Some(s); break; }
            }
            let want_s = want_s.ok_or("model: the generator must provide a non-zero chunk")?;
            if b[32..64] != Aff::basepoint().mul(&want_s.0).compress()[..] { return Err("<SubgroupPoint as Group>::random: not generator * (first non-zero wide-reduced chunk)".into()); }
            let mut c = [0u8; 64];
            for i in 0..64 { c[i] = byte(i); }
            if b[64..96] != rist::encode(&rist::from_uniform_bytes(&c))[..] { return Err("<RistrettoPoint as Group>::random differs from from_uniform_bytes of the first 64 RNG bytes".into()); }
            Ok(())
        }
        "gp.cofactor" => {
            let p = need!(ptab(&a[0]));
            if rej || b.len() != 32 + 2 + 32 + 1 + 32 * 6 { return Err(format!("gp.cofactor: {}", got.short())); }
            if b[..32] != p.mul8().compress()[..] { return Err("clear_cofactor != [8]P".into()); }
            let tf = p.is_torsion_free() as u8;
            if b[32] != tf { return Err(format!("into_subgroup is_some = {} but torsion-free = {}", b[32], tf)); }
            if b[33] != tf { return Err("CofactorGroup::is_torsion_free".into()); }
            if b[34..66] != p.dbl().compress()[..] || b[66] != p.is_identity() as u8 { return Err("Group::double / is_identity".into()); }
            let id = Aff::IDENTITY.compress();
            let bp = Aff::basepoint().compress();
            let want = [id, bp, id, bp, rist::encode(&Aff::IDENTITY), rist::encode(&Aff::basepoint())];
            for (i, w) in want.iter().enumerate() {
                if b[67 + 32 * i..99 + 32 * i] != w[..] { return Err("Group::identity / generator".into()); }
            }
            Ok(())
        }
        "gp.subgroup_ops" => {
            let (p, q) = (need!(ptab(&a[0])), need!(ptab(&a[1])));
            if !p.is_torsion_free() || !q.is_torsion_free() { return if rej { Ok(()) } else { Err("SubgroupPoint accepted a point with torsion".into()) }; }
            let s = need!(can(&a[2]));
            if rej || b.len() != 32 * 38 + 1 { return Err(format!("gp.subgroup_ops: {}", got.short())); }
            let ps = p.mul(&s.0);
            let (pq, pmq) = (p.add(&q), p.sub(&q));
            let mut want = vec![];
            want.extend(std::iter::repeat(pq.clone()).take(6));
            want.extend(std::iter::repeat(pmq.clone()).take(6));
            want.extend(std::iter::repeat(ps).take(10));
            want.extend([p.neg(), p.dbl(), pq.clone(), pq.clone()]);
            want.extend(std::iter::repeat(pq).take(6));
            want.extend(std::iter::repeat(pmq).take(6));
            for (i, w) in want.iter().enumerate() {
                if b[32 * i..32 * i + 32] != w.compress()[..] { return Err(format!("SubgroupPoint operator result {} (6 add forms, 6 sub forms, 10 mul forms, neg, double, 2 sums, 6+6 mixed Edwards/Subgroup forms) differs from the Edwards model", i)); }
            }
            if b[32 * 38] != p.is_identity() as u8 { return Err("SubgroupPoint::is_identity".into()); }
            Ok(())
        }
        _ => Err("no oracle".into()),
    }
}

