//! Model of the Edwards operations: affine group law on integers.
use crate::model::big::U256;
use crate::model::ed::{self, Aff};
use crate::model::fp::Fp;
use crate::req::{Req, Resp};
use crate::util::a32;

pub const NREG: usize = 6;

pub fn pt(b: &[u8]) -> Option<Aff> {
    if b.len() != 32 {
        return None;
    }
    Aff::decompress(&a32(b))
}

/// The model's run of a history: the affine point after each step, and the final observations.
pub fn history(regs0: &[u8], prog: &[u8]) -> Option<(Vec<Aff>, Vec<u8>)> {
    if regs0.len() != 32 * NREG || prog.len() % 4 != 0 {
        return None;
    }
    let mut r = vec![];
    for i in 0..NREG {
        r.push(pt(&regs0[32 * i..32 * i + 32])?);
    }
    let tors = crate::gens::torsion();
    // dalek's EIGHT_TORSION[i] = i * T for its order-8 generator T = EIGHT_TORSION[1]; the model's
    // torsion()[i] = i * T8 for the model's own generator. Map through the encoding of index 1.
    let dalek_t1 = dalek_torsion_generator();
    let mut steps = vec![];
    for ins in prog.chunks(4) {
        let (opc, d, s1, s2) = (ins[0] % 16, ins[1] as usize % NREG, ins[2] as usize % NREG, ins[3] as usize % NREG);
        let imm = ins[3];
        let res = match opc {
            0 | 13 => r[s1].add(&r[s2]),
            1 | 14 => r[s1].sub(&r[s2]),
            2 => r[s1].neg(),
            3 => r[s1].dbl(),
            4 => r[s1].mul8(),
            5 => r[d].add(&r[s1]),
            6 => r[d].sub(&r[s1]),
            7 => {
                let mut acc = Aff::IDENTITY;
                for i in 0..NREG {
                    if imm >> i & 1 == 1 {
                        acc = acc.add(&r[i]);
                    }
                }
                acc
            }
            8 => r[s1].mul(&U256::from_u64(imm as u64)),
            9 => r[s1].add(&dalek_t1.mul(&U256::from_u64(imm as u64 % 8))),
            10 => r[s1],
            11 => {
                if imm & 1 == 1 {
                    r[(d + 1) % NREG]
                } else {
                    r[s1]
                }
            }
            12 => Aff::IDENTITY,
            _ => {
                if ins[1] >> 7 == 1 {
                    r[s2]
                } else {
                    r[s1]
                }
            }
        };
        r[d] = res;
        steps.push(res);
    }
    let _ = tors;
    let mut fin = vec![];
    for i in 0..NREG {
        for j in 0..NREG {
            fin.push(if r[i] == r[j] { 3 } else { 0 });
        }
    }
    for i in 0..NREG {
        fin.push(r[i].is_identity() as u8);
    }
    for i in 0..NREG {
        fin.push(r[i].is_small_order() as u8);
    }
    for i in 0..NREG {
        fin.push(r[i].is_torsion_free() as u8);
    }
    Some((steps, fin))
}

/// The order-8 point dalek documents as EIGHT_TORSION[1] (its encoding is in DESIGN.md appendix A;
/// C12 checks the constant itself). EIGHT_TORSION[i] is documented as i * EIGHT_TORSION[1].
pub fn dalek_torsion_generator() -> Aff {
    static T: std::sync::OnceLock<Aff> = std::sync::OnceLock::new();
    *T.get_or_init(|| {
        let t = Aff::decompress(&a32(&crate::util::unhex("c7176a703d4dd84fba3c0b760d10670f2a2053fa2c39ccc64ec7fd7792ac037a"))).unwrap();
        assert!(t.mul8().is_identity() && !t.dbl().dbl().is_identity());
        t
    })
}

pub fn exec(op: &str, a: &[Vec<u8>]) -> Option<Resp> {
    Some(match op {
        "ed.decompress" => match pt(&a[0]) {
            Some(p) => Resp::Ok(p.compress().to_vec()),
            None => Resp::Rej,
        },
        "ed.history" => match history(&a[0], &a[1]) {
            None => Resp::Rej,
            Some((steps, fin)) => {
                let mut o = vec![];
                for s in steps {
                    o.extend_from_slice(&s.compress());
                }
                o.extend_from_slice(&fin);
                Resp::Ok(o)
            }
        },
        "ed.sum_many" => {
            if a[0].len() % 32 != 0 {
                return Some(Resp::Rej);
            }
            let mut acc = Aff::IDENTITY;
            for c in a[0].chunks(32) {
                match Aff::decompress(&a32(c)) {
                    Some(p) => acc = acc.add(&p),
                    None => return Some(Resp::Rej),
                }
            }
            let mut o = acc.compress().to_vec();
            o.extend_from_slice(&acc.compress());
            Resp::Ok(o)
        }
        "ed.consts" => {
            let mut o = vec![];
            let b = Aff::basepoint().compress();
            o.extend_from_slice(&b);
            o.extend_from_slice(&b);
            for _ in 0..3 {
                o.extend_from_slice(&Aff::IDENTITY.compress());
            }
            let t = dalek_torsion_generator();
            for i in 0..8u64 {
                o.extend_from_slice(&t.mul(&U256::from_u64(i)).compress());
            }
            Resp::Ok(o)
        }
        "ed.compressed_eq" => {
            if a[0].len() != 32 || a[1].len() != 32 {
                return Some(Resp::Rej);
            }
            let e = (a[0] == a[1]) as u8;
            Resp::Ok(vec![e, e, e, (a[0][..] == Aff::IDENTITY.compress()[..]) as u8])
        }
        _ => return None,
    })
}

/// Check extended coordinates (X,Y,Z,T as canonical bytes) against an affine model point:
/// Z != 0, X = xZ, Y = yZ, XY = ZT, and the curve equation in projective form.
pub fn coords_valid(c: &[u8], want: &Aff) -> Result<(), String> {
    let f = |i: usize| Fp::from_bytes(&a32(&c[32 * i..32 * i + 32]));
    let (x, y, z, t) = (f(0), f(1), f(2), f(3));
    if z.is_zero() {
        return Err("Z = 0".into());
    }
    if x != want.x.mul(&z) || y != want.y.mul(&z) {
        return Err("X/Z, Y/Z differ from the model's affine point".into());
    }
    if x.mul(&y) != z.mul(&t) {
        return Err("XY != ZT (inconsistent extended coordinate)".into());
    }
    let (xx, yy, zz) = (x.sq(), y.sq(), z.sq());
    if yy.sub(&xx).mul(&zz) != zz.sq().add(&crate::model::fp::d().mul(&xx).mul(&yy)) {
        return Err("curve equation violated".into());
    }
    let _ = ed::torsion_points;
    Ok(())
}

/// Oracle for the *_coords variants (V builds)
pub fn oracle_coords(req: &Req, got: &Resp) -> Result<(), String> {
    match req.op.as_str() {
        "ed.decompress_coords" => {
            let m = pt(&req.a[0]);
            match (m, got) {
                (None, Resp::Rej) => Ok(()),
                (Some(p), Resp::Ok(b)) if b.len() == 160 => {
                    if b[..32] != p.compress()[..] {
                        return Err(format!("decompress: re-compression {} differs from the model's {}", crate::util::hex(&b[..32]), crate::util::hex(&p.compress())));
                    }
                    coords_valid(&b[32..], &p).map_err(|e| format!("decompress: {}", e))
                }
                (m, g) => Err(format!("decompress: model says {} but the code returned {}", if m.is_some() { "valid" } else { "invalid" }, g.short())),
            }
        }
        "ed.history_coords" => {
            let (steps, fin) = match history(&req.a[0], &req.a[1]) {
                Some(x) => x,
                None => return if *got == Resp::Rej { Ok(()) } else { Err("history: model rejects the initial registers".into()) },
            };
            let b = match got {
                Resp::Ok(b) => b,
                g => return Err(format!("history: code returned {}", g.short())),
            };
            if b.len() != steps.len() * 160 + fin.len() {
                return Err(format!("history: response length {} for {} steps: {}", b.len(), steps.len(), got.short()));
            }
            for (i, s) in steps.iter().enumerate() {
                let c = &b[160 * i..160 * i + 160];
                if c[..32] != s.compress()[..] {
                    return Err(format!("history step {}: compress gives {} but the model's point encodes as {}", i, crate::util::hex(&c[..32]), crate::util::hex(&s.compress())));
                }
                coords_valid(&c[32..], s).map_err(|e| format!("history step {}: {}", i, e))?;
            }
            if b[steps.len() * 160..] != fin[..] {
                return Err(format!("history: final observations (eq matrix, is_identity, is_small_order, is_torsion_free) {} differ from the model's {}", crate::util::hex(&b[steps.len() * 160..]), crate::util::hex(&fin)));
            }
            Ok(())
        }
        _ => Err("no coords oracle".into()),
    }
}
