use crate::model::big::U256;
use crate::model::ed::Aff;
use crate::model::eddsa::sha512;
use crate::model::fp::Fp;
use crate::model::sc::Sc;
use crate::req::Resp;
use crate::util::a32;

/// Elligator2 to the Montgomery curve as dalek documents it: d = -A/(1+2r^2); u = d if
/// d^3+Ad^2+d is a square, else -d-A
pub fn elligator2_u(r: &Fp) -> Fp {
    let a = Fp::from_u64(486662);
    let d = a.neg().div(&Fp::ONE.add(&r.sq().dbl()));
    let eps = d.sq().mul(&d).add(&a.mul(&d.sq())).add(&d);
    if eps.is_square() {
        d
    } else {
        d.neg().sub(&a)
    }
}

/// Verification with a context longer than 255 octets (release builds). The documentation gives the domain
/// "up to 255 bytes inclusive" and the code `debug_assert`s it, so acceptance or rejection of such a call is
/// not specified; what the property demands is: no panic, `with_context` refuses, and an ACCEPTED call is at
/// least a solution of the verification equation for the prefix the code then hashes (length octet = len mod
/// 256) - never an acceptance of arbitrary garbage. (The first version of this oracle said "always rejected",
/// which holds only with cryptographic probability: a small-order key with S = 0 verifies under every
/// context, over-long ones included - a false alarm of that oracle, see DESIGN.md 7.1.)
pub fn oracle_longctx(req: &crate::req::Req, got: &Resp) -> Result<(), String> {
    use crate::model::eddsa;
    let a = &req.a;
    if a[0].len() != 32 || a[2].len() != 64 {
        return if *got == Resp::Rej { Ok(()) } else { Err(format!("tot.verify_longctx: malformed request answered {}", got.short())) };
    }
    let b = match got {
        Resp::Ok(b) if b.len() == 4 => b,
        _ => return Err(format!("tot.verify_longctx: unexpected response {}", got.short())),
    };
    if b[3] != 0 {
        return Err("with_context accepted a context longer than 255 octets (documented: Err)".into());
    }
    let (pk, sig) = (a32(&a[0]), {
        let mut s = [0u8; 64];
        s.copy_from_slice(&a[2]);
        s
    });
    let mut dom = b"SigEd25519 no Ed25519 collisions".to_vec();
    dom.push(1);
    dom.push(a[3].len() as u8);
    dom.extend_from_slice(&a[3]);
    let ph = sha512(&[&a[1]]);
    let plain = eddsa::verify(&pk, &dom, &ph, &sig, crate::mops::eddsa::rule()) as u8;
    let strict = eddsa::verify_strict(&pk, &dom, &ph, &sig, crate::mops::eddsa::rule()) as u8;
    for (i, (name, allowed)) in [("verify_prehashed", plain), ("verify_prehashed_strict", strict), ("raw_verify_prehashed", plain)].iter().enumerate() {
        if b[i] != 0 && b[i] != *allowed {
            return Err(format!("{} accepted a signature under an over-long context although the verification equation does not hold", name));
        }
    }
    Ok(())
}

pub fn exec(op: &str, a: &[Vec<u8>]) -> Option<Resp> {
    Some(match op {
        "tot.slices" => {
            let n = a[0].len();
            let l32 = (n == 32) as u8;
            let l64 = (n == 64) as u8;
            let vk = (n == 32 && Aff::decompress(&a32(&a[0])).is_some()) as u8;
            Resp::Ok(vec![1, l32, l32, l32, l32, vk, l32, l64, l64, l64, l64])
        }
        "tot.nonspec_map" => {
            let mut h = [0u8; 64];
            if a[1][0] & 1 == 0 {
                h = sha512(&[&a[0]]);
            } else {
                let n = a[0].len().min(64);
                h[..n].copy_from_slice(&a[0][..n]);
            }
            let res: [u8; 32] = h[..32].try_into().unwrap();
            let sign = res[31] >> 7;
            let r = Fp::from_bytes(&res);
            let u = elligator2_u(&r);
            match crate::mops::montgomery::to_edwards(&u, sign) {
                Some(p) => Resp::Ok(p.mul8().compress().to_vec()),
                None => Resp::Panic("model: Elligator2 output is not on the curve".into()),
            }
        }
        "tot.verify_chosen_k" => {
            if a[0].len() != 32 || a[1].len() != 32 || a[2].len() != 32 {
                return Some(Resp::Rej);
            }
            let (ab, rb, sb) = (a32(&a[0]), a32(&a[1]), a32(&a[2]));
            let pa = match Aff::decompress(&ab) {
                Some(p) => p,
                None => return Some(Resp::Ok(vec![0])),
            };
            let s = match Sc::from_canonical(&sb) {
                Some(s) => s,
                None => return Some(Resp::Ok(vec![0])),
            };
            let mut w = [0u8; 64];
            w[..32].copy_from_slice(&rb);
            w[32..].copy_from_slice(&ab);
            let k = Sc::from_bytes_mod_order_wide(&w);
            let rr = Aff::basepoint().mul(&s.0).sub(&pa.mul(&k.0));
            Resp::Ok(vec![(rr.compress() == rb) as u8])
        }
        "tot.verify_longctx" => {
            if a[0].len() != 32 || a[2].len() != 64 {
                return Some(Resp::Rej);
            }
            let _ = U256::ZERO;
            Resp::Ok(vec![0, 0, 0, 0])
        }
        _ => return None,
    })
}
