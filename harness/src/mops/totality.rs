use crate::model::big::U256;
use crate::model::ed::Aff;
use crate::model::eddsa::sha512;
use crate::model::fp::Fp;
use crate::req::Resp;
use crate::util::a32;

/// Elligator2 to the Montgomery curve as dalek documents it: d = -A/(1+2r^2); u = d if
/// d^3+Ad^2+d is a square, else -d-A
pub fn elligator2_u(r: &Fp) -> Fp {
    let a = Fp::from_u64(486662);
    let d = a.neg().div(&Fp::ONE.add(&r.sq().dbl()));
    let eps = d.sq().mul(&d).add(&a.mul(&d.sq())).add(&d);
    if eps.is_square() {
        d
    } else {
        d.neg().sub(&a)
    }
}

pub fn exec(op: &str, a: &[Vec<u8>]) -> Option<Resp> {
    Some(match op {
        "tot.slices" => {
            let n = a[0].len();
            let l32 = (n == 32) as u8;
            let l64 = (n == 64) as u8;
            let vk = (n == 32 && Aff::decompress(&a32(&a[0])).is_some()) as u8;
            Resp::Ok(vec![l32, l32, l32, l32, vk, l32, l64, l64, l64, l64])
        }
        "tot.nonspec_map" => {
            let mut h = [0u8; 64];
            if a[1][0] & 1 == 0 {
                h = sha512(&[&a[0]]);
            } else {
                let n = a[0].len().min(64);
                h[..n].copy_from_slice(&a[0][..n]);
            }
            let res: [u8; 32] = h[..32].try_into().unwrap();
            let sign = res[31] >> 7;
            let r = Fp::from_bytes(&res);
            let u = elligator2_u(&r);
            match crate::mops::montgomery::to_edwards(&u, sign) {
                Some(p) => Resp::Ok(p.mul8().compress().to_vec()),
                None => Resp::Panic("model: Elligator2 output is not on the curve".into()),
            }
        }
        "tot.verify_longctx" => {
            if a[0].len() != 32 || a[2].len() != 64 {
                return Some(Resp::Rej);
            }
            let _ = U256::ZERO;
            Resp::Ok(vec![0, 0, 0, 0])
        }
        _ => return None,
    })
}
