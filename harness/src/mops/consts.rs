//! Model definitions of the precomputed constants and table entries.
use crate::layout::fe_layout;
use crate::model::big::{U256, U512};
use crate::model::ed::Aff;
use crate::model::fp::{self, Fp};
use crate::model::rist;
use crate::model::sc::{self, Sc};
use crate::req::{Req, Resp};
use crate::util::{a32, hex};

fn field_def(name: &str) -> Option<Fp> {
    let d = fp::d();
    Some(match name {
        "ZERO" => Fp::ZERO,
        "ONE" => Fp::ONE,
        "MINUS_ONE" | "FIELD_MINUS_ONE" => Fp::ONE.neg(),
        "EDWARDS_D" => d,
        "EDWARDS_D2" => d.dbl(),
        "ONE_MINUS_EDWARDS_D_SQUARED" => Fp::ONE.sub(&d.sq()),
        "EDWARDS_D_MINUS_ONE_SQUARED" => d.sub(&Fp::ONE).sq(),
        "SQRT_AD_MINUS_ONE" => rist::sqrt_ad_minus_one(),
        "INVSQRT_A_MINUS_D" => rist::invsqrt_a_minus_d(),
        "SQRT_M1" => rist::sqrt_m1(),
        "APLUS2_OVER_FOUR" => Fp::from_u64(486662 + 2).div(&Fp::from_u64(4)),
        "MONTGOMERY_A" => Fp::from_u64(486662),
        "MONTGOMERY_A_NEG" => Fp::from_u64(486662).neg(),
        _ => return None,
    })
}

/// defining equations (independent of the hard-coded RFC decimals in model::rist)
fn field_equation(name: &str, v: &Fp) -> Result<(), String> {
    let d = fp::d();
    let ok = match name {
        "EDWARDS_D" => v.mul(&Fp::from_u64(121666)) == Fp::from_u64(121665).neg(),
        "SQRT_M1" => v.sq() == Fp::ONE.neg() && !v.is_neg(),
        "SQRT_AD_MINUS_ONE" => v.sq() == d.neg().sub(&Fp::ONE),
        "INVSQRT_A_MINUS_D" => v.sq().mul(&Fp::ONE.neg().sub(&d)) == Fp::ONE,
        "APLUS2_OVER_FOUR" => *v == Fp::from_u64(121666),
        _ => true,
    };
    if ok {
        Ok(())
    } else {
        Err(format!("{} does not satisfy its defining equation", name))
    }
}

pub const FIELD_NAMES: [&str; 14] = [
    "ZERO", "ONE", "MINUS_ONE", "FIELD_MINUS_ONE", "EDWARDS_D", "EDWARDS_D2", "ONE_MINUS_EDWARDS_D_SQUARED", "EDWARDS_D_MINUS_ONE_SQUARED",
    "SQRT_AD_MINUS_ONE", "INVSQRT_A_MINUS_D", "SQRT_M1", "APLUS2_OVER_FOUR", "MONTGOMERY_A", "MONTGOMERY_A_NEG",
];

fn niels_of(p: &Aff) -> [Fp; 3] {
    [p.y.add(&p.x), p.y.sub(&p.x), fp::d().dbl().mul(&p.x).mul(&p.y)]
}

fn pow256(i: usize) -> U256 {
    U256::ONE.shl(8 * i)
}

/// (j+1) * 256^i * B
pub fn bp_table_point(i: usize, j: usize) -> Aff {
    let k = Sc::from_u256(&pow256(i)).mul(&Sc::from_u64(j as u64 + 1));
    Aff::basepoint().mul(&k.0)
}
pub fn odd_multiple(k: usize) -> Aff {
    Aff::basepoint().mul(&U256::from_u64(2 * k as u64 + 1))
}

fn check_niels(b: &[u8], want: &Aff, what: &str) -> Result<(), String> {
    let lay = fe_layout();
    let n = lay.nlimbs * 8;
    if b.len() != 96 + 3 * n {
        return Err(format!("{}: unexpected length {}", what, b.len()));
    }
    let w = niels_of(want);
    let names = ["y+x", "y-x", "2dxy"];
    for i in 0..3 {
        if b[32 * i..32 * i + 32] != w[i].to_bytes()[..] {
            return Err(format!("{}: component {} is {} but the definition gives {}", what, names[i], hex(&b[32 * i..32 * i + 32]), hex(&w[i].to_bytes())));
        }
        let limbs = lay.decode(&b[96 + n * i..96 + n * (i + 1)]);
        if lay.value(&limbs) != w[i] {
            return Err(format!("{}: raw limbs of component {} denote another value", what, names[i]));
        }
    }
    Ok(())
}

/// cached point lanes (S2', S3', Z', T') = (121666(Y-X), 121666(Y+X), 2*121666 Z, -2*121665 T)
fn check_cached(lanes: &[Fp; 4], want: &Aff, what: &str) -> Result<(), String> {
    let c = Fp::from_u64(121666).inv();
    let a = lanes[0].mul(&c); // Y - X
    let b = lanes[1].mul(&c); // Y + X
    let z = lanes[2].mul(&Fp::from_u64(2 * 121666).inv());
    let t = lanes[3].mul(&Fp::from_u64(2 * 121665).inv()).neg();
    let two_inv = Fp::from_u64(2).inv();
    let x = b.sub(&a).mul(&two_inv);
    let y = b.add(&a).mul(&two_inv);
    if z.is_zero() {
        return Err(format!("{}: Z = 0", what));
    }
    if x != want.x.mul(&z) || y != want.y.mul(&z) {
        return Err(format!("{}: cached point does not denote the stated multiple of the basepoint", what));
    }
    if x.mul(&y) != z.mul(&t) {
        return Err(format!("{}: cached T inconsistent (XY != ZT)", what));
    }
    Ok(())
}

pub fn oracle(req: &Req, got: &Resp) -> Result<(), String> {
    let b = match got {
        Resp::Ok(b) => b,
        g => return Err(format!("{}: {}", req.op, g.short())),
    };
    let idx = |i: usize| req.a.get(i).map(|x| x[0] as usize).unwrap_or(0);
    match req.op.as_str() {
        "k.field" => {
            let name = String::from_utf8_lossy(&req.a[0]).to_string();
            let want = field_def(&name).ok_or("unknown constant")?;
            let lay = fe_layout();
            if b.len() != 32 + 8 * lay.nlimbs {
                return Err("k.field: length".into());
            }
            let v = Fp::from_bytes(&a32(&b[..32]));
            if b[..32] != want.to_bytes()[..] {
                return Err(format!("constant {} encodes as {} but its definition gives {}", name, hex(&b[..32]), hex(&want.to_bytes())));
            }
            if lay.value(&lay.decode(&b[32..])) != want {
                return Err(format!("constant {}: raw limbs denote another value", name));
            }
            field_equation(&name, &v)
        }
        "k.point_const" => {
            let i = idx(0);
            let want = if i < 8 { crate::mops::edwards::dalek_torsion_generator().mul(&U256::from_u64(i as u64)) } else { Aff::basepoint() };
            if b.len() != 128 {
                return Err(format!("k.point_const: {}", got.short()));
            }
            crate::mops::edwards::coords_valid(b, &want).map_err(|e| format!("public point constant #{} (0..7 = EIGHT_TORSION[i] = i*T, 8 = Ed25519 basepoint, 9 = Ristretto basepoint): {}", i, e))
        }
        "k.scalar" => {
            let nl = b[b.len() - 1] as usize;
            let bits = b[b.len() - 2] as usize;
            let val = |k: usize| -> U512 {
                let mut acc = U512::ZERO;
                for i in 0..nl {
                    let limb = u64::from_le_bytes(b[8 * (k * nl + i)..8 * (k * nl + i) + 8].try_into().unwrap());
                    acc = acc.add_c(&shl512(&U256::from_u64(limb).widen(), bits * i)).0;
                }
                acc
            };
            let l = sc::l();
            if val(0) != l.widen() {
                return Err("scalar constant L is not the group order".into());
            }
            // R = 2^(bits*nl) mod l ; RR = R^2 mod l
            let radix = shl512(&U256::ONE.widen(), bits * nl);
            let r = radix.rem(&l);
            if val(1) != r.widen() {
                return Err(format!("scalar constant R is not 2^{} mod l", bits * nl));
            }
            let rr = Sc(r).mul(&Sc(r));
            if val(2) != rr.0.widen() {
                return Err("scalar constant RR is not R^2 mod l".into());
            }
            let lf = u64::from_le_bytes(b[8 * 3 * nl..8 * 3 * nl + 8].try_into().unwrap());
            // l * LFACTOR = -1 mod 2^bits
            let prod = (l.low_u64() as u128 * lf as u128) as u64;
            let mask = (1u64 << bits) - 1;
            if lf > mask || (prod.wrapping_add(1)) & mask != 0 {
                return Err(format!("LFACTOR: l * LFACTOR != -1 mod 2^{}", bits));
            }
            Ok(())
        }
        "k.bp_table" | "k.bp_table_rist" => check_niels(b, &bp_table_point(idx(0), idx(1)), &format!("{}[{}][{}]", req.op, idx(0), idx(1))),
        "k.odd_table" => check_niels(b, &odd_multiple(idx(0)), &format!("AFFINE_ODD_MULTIPLES_OF_BASEPOINT[{}]", idx(0))),
        "k.avx2_odd_table" | "k.ifma_odd_table" => {
            if b.len() != 288 {
                return Err("odd table entry: length".into());
            }
            let lanes = if req.op == "k.avx2_odd_table" { crate::mops::vector::avx2_values(&b[..160]) } else { crate::mops::vector::ifma_values(&b[..160]) }.unwrap();
            check_cached(&lanes, &odd_multiple(idx(0)), &format!("{}[{}]", req.op, idx(0)))
        }
        "k.avx2_consts" => {
            if b.len() != 4 * 32 + 2 * 288 {
                return Err("avx2 consts: length".into());
            }
            let lane = |v: usize, i: usize| u32::from_le_bytes(b[32 * v + 4 * i..32 * v + 4 * i + 4].try_into().unwrap()) as u64;
            // lane order (a_2i, b_2i, a_2i+1, b_2i+1, c_2i, d_2i, c_2i+1, d_2i+1)
            for (v, mult, lo) in [(0usize, 2u64, true), (1, 2, false), (2, 16, true), (3, 16, false)] {
                for i in 0..8 {
                    let even = [0, 1, 4, 5].contains(&i);
                    let base = if even { if lo { (1u64 << 26) - 19 } else { (1u64 << 26) - 1 } } else { (1u64 << 25) - 1 };
                    if lane(v, i) != mult * base {
                        return Err(format!("P_TIMES_{}_{} lane {} = {} (expected {})", mult, if lo { "LO" } else { "HI" }, i, lane(v, i), mult * base));
                    }
                }
            }
            let ext = crate::mops::vector::avx2_values(&b[128..128 + 160]).unwrap();
            if ext != [Fp::ZERO, Fp::ONE, Fp::ONE, Fp::ZERO] {
                return Err("avx2 EXTENDEDPOINT_IDENTITY is not (0,1,1,0)".into());
            }
            let cached = crate::mops::vector::avx2_values(&b[128 + 288..128 + 288 + 160]).unwrap();
            check_cached(&cached, &Aff::IDENTITY, "avx2 CACHEDPOINT_IDENTITY")
        }
        "k.ifma_consts" => {
            if b.len() != 2 * 288 {
                return Err("ifma consts: length".into());
            }
            let ext = crate::mops::vector::ifma_values(&b[..160]).unwrap();
            if ext != [Fp::ZERO, Fp::ONE, Fp::ONE, Fp::ZERO] {
                return Err("ifma EXTENDEDPOINT_IDENTITY is not (0,1,1,0)".into());
            }
            let cached = crate::mops::vector::ifma_values(&b[288..288 + 160]).unwrap();
            check_cached(&cached, &Aff::IDENTITY, "ifma CACHEDPOINT_IDENTITY")
        }
        "kp.public" => {
            let mut want = vec![];
            let bp = Aff::basepoint();
            want.extend_from_slice(&bp.compress());
            want.extend_from_slice(&bp.compress());
            let rb = rist::encode(&bp);
            want.extend_from_slice(&rb);
            want.extend_from_slice(&rb);
            let mut nine = [0u8; 32];
            nine[0] = 9;
            want.extend_from_slice(&nine);
            want.extend_from_slice(&nine);
            want.extend_from_slice(&sc::l().to_le());
            let t = crate::mops::edwards::dalek_torsion_generator();
            for i in 0..8u64 {
                want.extend_from_slice(&t.mul(&U256::from_u64(i)).compress());
            }
            want.push(1);
            for n in [32u32, 32, 64, 64] {
                want.extend_from_slice(&n.to_le_bytes());
            }
            if *b != want {
                return Err(format!("public constants: got {} expected {}", hex(b), hex(&want)));
            }
            // defining properties, not just equality with the model's encoding
            if bp.y.mul(&Fp::from_u64(5)) != Fp::from_u64(4) || bp.x.is_neg() || !bp.mul(&sc::l()).is_identity() || bp.to_montgomery_u() != Fp::from_u64(9) {
                return Err("basepoint definition".into());
            }
            let set: std::collections::HashSet<[u8; 32]> = (0..8u64).map(|i| t.mul(&U256::from_u64(i)).compress()).collect();
            let all: std::collections::HashSet<[u8; 32]> = crate::gens::torsion().iter().map(|p| p.compress()).collect();
            if set != all {
                return Err("EIGHT_TORSION is not E[8]".into());
            }
            Ok(())
        }
        _ => Err("no oracle".into()),
    }
}

fn shl512(x: &U512, n: usize) -> U512 {
    let (w, b) = (n / 64, n % 64);
    let mut r = [0u64; 8];
    for i in (w..8).rev() {
        r[i] = x.0[i - w] << b;
        if b > 0 && i > w {
            r[i] |= x.0[i - w - 1] >> (64 - b);
        }
    }
    U512(r)
}
