//! Model of the Ed25519 operations: RFC 8032 on the integer model.
use crate::model::big::U256;
use crate::model::ed::Aff;
use crate::model::eddsa::*;
use crate::model::sc::{clamp, Sc};
use crate::req::Resp;
use crate::util::{a32, a64};

pub fn rule() -> SCheck {
    if cfg!(feature = "legacy") {
        SCheck::Legacy
    } else {
        SCheck::Canonical
    }
}

fn pad64(x: &[u8]) -> [u8; 64] {
    let mut o = [0u8; 64];
    let n = x.len().min(64);
    o[..n].copy_from_slice(&x[..n]);
    o
}

/// the model's verdicts in the executor's order
pub fn verify_all(pk: &[u8; 32], msg: &[u8], sig: &[u8; 64], ctx: &[u8], has_ctx: bool) -> Vec<u8> {
    if Aff::decompress(pk).is_none() {
        return vec![0u8; 8];
    }
    let r = rule();
    let ph = sha512(&[msg]);
    let c: &[u8] = if has_ctx { ctx } else { &[] };
    let d = dom2(1, c);
    let dctx = dom2(1, ctx);
    let mut o = vec![];
    o.push(verify(pk, &[], msg, sig, r) as u8);
    o.push(verify_strict(pk, &[], msg, sig, r) as u8);
    o.push(verify(pk, &[], msg, sig, r) as u8);
    o.push(verify(pk, &d, &ph, sig, r) as u8);
    o.push(verify_strict(pk, &d, &ph, sig, r) as u8);
    o.push(verify(pk, &d, &ph, sig, r) as u8);
    o.push(verify(pk, &dctx, &ph, sig, r) as u8);
    o.push(if ctx.is_empty() { verify(pk, &dom2(1, &[]), &ph, sig, r) as u8 } else { 2 });
    o
}

/// Batch verification is specified (C13) for keys and R that are canonical encodings of points of the
/// prime-order subgroup: there it must equal the conjunction of the single verifications. Outside that domain
/// the randomised equation multiplies torsion components by coefficients reduced mod l, so batch and single
/// verification may legitimately differ (e.g. an order-4 key with R = identity, S = 0 and k = 0 mod 4: single
/// accepts, batch need not). There only the error classes are asserted: mismatched lengths, a non-canonical S,
/// an undecodable R or key must give Err; and never a panic. (The first oracle demanded agreement everywhere:
/// a false alarm met by seed 7 of the C15 quick tier, see DESIGN.md 7.1.)
pub fn oracle_batch(req: &crate::req::Req, got: &Resp) -> Result<(), String> {
    let want = match exec("sig.batch", &req.a) {
        Some(w) => w,
        None => return Err("no model".into()),
    };
    if *got == want {
        return Ok(());
    }
    let a = &req.a;
    // in the specified domain (or malformed request / undecodable key): strict
    let (wb, gb) = match (&want, got) {
        (Resp::Ok(w), Resp::Ok(g)) if w.len() == g.len() => (w, g),
        _ => return Err(format!("sig.batch: model expects {} but the code returned {}", want.short(), got.short())),
    };
    let sigs: Vec<[u8; 64]> = a[2].chunks(64).map(a64).collect();
    let keys: Vec<[u8; 32]> = a[3].chunks(32).map(a32).collect();
    let n = u16::from_le_bytes([a[0][0], a[0][1]]) as usize;
    let canonical_prime_order = |e: &[u8; 32]| match Aff::decompress(e) {
        Some(p) => p.is_torsion_free() && p.compress() == *e,
        None => false,
    };
    let r_undecodable = sigs.iter().any(|s| Aff::decompress(&a32(&s[..32])).is_none());
    let s_noncanonical = sigs.iter().any(|s| U256::from_le(&a32(&s[32..])) >= crate::model::sc::l());
    let mismatch = n != sigs.len() || sigs.len() != keys.len();
    let in_domain = keys.iter().all(canonical_prime_order) && sigs.iter().all(|s| canonical_prime_order(&a32(&s[..32])));
    if in_domain || mismatch || r_undecodable || s_noncanonical {
        return Err(format!("sig.batch: model expects {} but the code returned {}", want.short(), got.short()));
    }
    // outside the domain: any consistent verdict (all calls equal) is allowed
    if gb.iter().all(|x| *x == gb[0]) && gb[0] <= 1 && wb.len() == gb.len() {
        Ok(())
    } else {
        Err(format!("sig.batch: repeated calls disagree: {}", got.short()))
    }
}

pub fn exec(op: &str, a: &[Vec<u8>]) -> Option<Resp> {
    macro_rules! need {
        ($e:expr) => {
            match $e {
                Some(x) => x,
                None => return Some(Resp::Rej),
            }
        };
    }
    let b32 = |x: &Vec<u8>| if x.len() == 32 { Some(a32(x)) } else { None };
    let b64 = |x: &Vec<u8>| if x.len() == 64 { Some(a64(x)) } else { None };
    Some(match op {
        "sig.keygen" => {
            let seed = need!(b32(&a[0]));
            let e = expand(&seed);
            let mut o = e.pk.to_vec();
            o.extend_from_slice(&seed);
            o.extend_from_slice(&e.pk);
            o.extend_from_slice(&seed);
            o.extend_from_slice(&Sc::from_bytes_mod_order(&e.a_bytes).to_bytes());
            o.extend_from_slice(&e.pk);
            o.extend_from_slice(&e.pk);
            o.push(Aff::decompress(&e.pk).unwrap().is_small_order() as u8);
            o.extend_from_slice(&[1u8; 10]);
            o.extend_from_slice(&Aff::IDENTITY.compress());
            Resp::Ok(o)
        }
        "sig.generate" => {
            let mut seed = [0u8; 32];
            for i in 0..32 {
                seed[i] = if a[0].is_empty() { 0 } else { a[0][i % a[0].len()] };
            }
            let mut o = seed.to_vec();
            o.extend_from_slice(&expand(&seed).pk);
            Resp::Ok(o)
        }
        "sig.from_keypair" => {
            let b = need!(b64(&a[0]));
            let seed = a32(&b[..32]);
            if expand(&seed).pk[..] == b[32..] {
                Resp::Ok(b.to_vec())
            } else {
                Resp::Rej
            }
        }
        "sig.sign" => {
            let seed = need!(b32(&a[0]));
            let s = sign(&seed, &a[1]);
            let mut o = vec![];
            for _ in 0..3 {
                o.extend_from_slice(&s);
            }
            o.extend_from_slice(&[1, 1, 1, 0, 0, 0]);
            Resp::Ok(o)
        }
        "sig.sign_ph" => {
            let seed = need!(b32(&a[0]));
            let ctx: &[u8] = if a[3][0] & 1 == 1 { &a[2] } else { &[] };
            if ctx.len() > 255 {
                return Some(Resp::Rej);
            }
            let ph = if a[4][0] & 1 == 0 { sha512(&[&a[1]]) } else { pad64(&a[1]) };
            let s = sign_ph(&seed, &ph, ctx);
            let mut o = vec![];
            for _ in 0..3 {
                o.extend_from_slice(&s);
            }
            o.push(1);
            if ctx.is_empty() {
                o.extend_from_slice(&s);
            }
            Resp::Ok(o)
        }
        "sig.expanded" => {
            let b = need!(b64(&a[0]));
            let a_bytes = clamp(&a32(&b[..32]));
            let sc = Sc::from_bytes_mod_order(&a_bytes);
            // dalek derives the key from the *reduced* scalar; as a point that is the same
            let pk = Aff::basepoint().mul(&U256::from_le(&a_bytes)).compress();
            let s = sign_raw(&sc, &a32(&b[32..]), &pk, &[], &a[1]);
            let mut o = pk.to_vec();
            o.extend_from_slice(&s);
            o.extend_from_slice(&s);
            Resp::Ok(o)
        }
        "sig.verify" => {
            let pk = need!(b32(&a[0]));
            let sig = need!(b64(&a[2]));
            if a[3].len() > 255 {
                return Some(Resp::Rej);
            }
            Resp::Ok(verify_all(&pk, &a[1], &sig, &a[3], a[4][0] & 1 == 1))
        }
        "sig.key_eq" => {
            let (k1, k2) = (need!(b32(&a[0])), need!(b32(&a[1])));
            match (Aff::decompress(&k1), Aff::decompress(&k2)) {
                (Some(p), Some(q)) => {
                    let e = (k1 == k2) as u8;
                    Resp::Ok(vec![e, e, 1, (p == q) as u8])
                }
                _ => Resp::Rej,
            }
        }
        "sig.verify_sk" => {
            let seed = need!(b32(&a[0]));
            let sig = need!(b64(&a[2]));
            if a[3].len() > 255 {
                return Some(Resp::Rej);
            }
            let pk = expand(&seed).pk;
            let v = verify_all(&pk, &a[1], &sig, &a[3], a[4][0] & 1 == 1);
            Resp::Ok(vec![v[0], v[1], v[0], v[3]])
        }
        "sig.batch" => {
            let n = u16::from_le_bytes([a[0][0], a[0][1]]) as usize;
            let mut msgs: Vec<&[u8]> = vec![];
            let mut p = 0usize;
            for _ in 0..n {
                if p + 2 > a[1].len() {
                    return Some(Resp::Rej);
                }
                let l = u16::from_le_bytes([a[1][p], a[1][p + 1]]) as usize;
                p += 2;
                if p + l > a[1].len() {
                    return Some(Resp::Rej);
                }
                msgs.push(&a[1][p..p + l]);
                p += l;
            }
            if a[2].len() % 64 != 0 || a[3].len() % 32 != 0 {
                return Some(Resp::Rej);
            }
            let sigs: Vec<[u8; 64]> = a[2].chunks(64).map(a64).collect();
            let keys: Vec<[u8; 32]> = a[3].chunks(32).map(a32).collect();
            if keys.iter().any(|k| Aff::decompress(k).is_none()) {
                return Some(Resp::Rej);
            }
            let calls = a[4][0].max(1) as usize;
            let ok = msgs.len() == sigs.len() && sigs.len() == keys.len() && (0..msgs.len()).all(|i| verify(&keys[i], &[], msgs[i], &sigs[i], SCheck::Canonical));
            Resp::Ok(vec![ok as u8; calls])
        }
        "sig.parse" => {
            let b = need!(b64(&a[0]));
            let mut o = b.to_vec();
            o.extend_from_slice(&b);
            Resp::Ok(o)
        }
        _ => return None,
    })
}
