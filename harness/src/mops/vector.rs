//! Model of the 4-lane vector field operations: lane-wise integer arithmetic mod p.
use crate::model::big::U256;
use crate::model::fp::Fp;
use crate::req::{Req, Resp};
use crate::util::a32;

pub const SHIFTS26: [usize; 10] = [0, 26, 51, 77, 102, 128, 153, 179, 204, 230];

/// lane values of an AVX2 operand
pub fn avx2_values(x: &[u8]) -> Option<[Fp; 4]> {
    if x.len() == 160 {
        let mut o = [Fp::ZERO; 4];
        for i in 0..4 {
            let mut acc = Fp::ZERO;
            for j in 0..10 {
                let k = 4 * (10 * i + j);
                let limb = u32::from_le_bytes(x[k..k + 4].try_into().unwrap());
                acc = acc.add(&Fp::from_u64(limb as u64).mul(&Fp::from_u256(&U256::ONE.shl(SHIFTS26[j]))));
            }
            o[i] = acc;
        }
        Some(o)
    } else if x.len() == 128 {
        let mut o = [Fp::ZERO; 4];
        for i in 0..4 {
            o[i] = Fp::from_bytes(&a32(&x[32 * i..32 * i + 32]));
        }
        Some(o)
    } else {
        None
    }
}
pub fn ifma_values(x: &[u8]) -> Option<[Fp; 4]> {
    if x.len() == 160 {
        let mut o = [Fp::ZERO; 4];
        for i in 0..4 {
            let mut acc = Fp::ZERO;
            for j in 0..5 {
                let k = 8 * (5 * i + j);
                let limb = u64::from_le_bytes(x[k..k + 8].try_into().unwrap());
                acc = acc.add(&Fp::from_u64(limb).mul(&Fp::from_u256(&U256::ONE.shl(51 * j))));
            }
            o[i] = acc;
        }
        Some(o)
    } else {
        avx2_values(x)
    }
}

fn shuffle_avx2(v: &[Fp; 4], c: u8) -> [Fp; 4] {
    let (a, b, cc, d) = (v[0], v[1], v[2], v[3]);
    match c % 10 {
        0 => [a, a, a, a],
        1 => [b, b, b, b],
        2 => [cc, a, cc, a],
        3 => [d, b, b, d],
        4 => [a, d, d, a],
        5 => [cc, b, cc, b],
        6 => [a, b, a, b],
        7 => [b, a, d, cc],
        8 => [b, a, cc, d],
        _ => [a, b, d, cc],
    }
}
fn shuffle_ifma(v: &[Fp; 4], c: u8) -> [Fp; 4] {
    let (a, b, cc, d) = (v[0], v[1], v[2], v[3]);
    match c % 10 {
        0 => [a, a, a, a],
        1 => [b, b, b, b],
        2 => [b, a, d, cc],
        3 => [b, a, cc, d],
        4 => [a, d, d, a],
        5 => [cc, b, cc, b],
        6 => [a, b, d, cc],
        7 => [a, b, a, b],
        8 => [d, b, b, d],
        _ => [cc, a, cc, a],
    }
}
/// which lanes come from `other`
fn blend_mask_avx2(c: u8) -> [bool; 4] {
    match c % 8 {
        0 => [false, false, true, false],
        1 => [false, false, false, true],
        2 => [true, true, false, false],
        3 => [true, false, true, false],
        4 => [false, false, true, true],
        5 => [true, false, false, true],
        6 => [false, true, true, false],
        _ => [true, true, true, true],
    }
}
fn blend_mask_ifma(c: u8) -> [bool; 4] {
    match c % 6 {
        0 => [false, false, false, true],
        1 => [false, false, true, false],
        2 => [true, true, false, false],
        3 => [true, false, true, false],
        4 => [true, false, false, true],
        _ => [false, true, true, true],
    }
}
fn blend(x: &[Fp; 4], y: &[Fp; 4], m: [bool; 4]) -> [Fp; 4] {
    let mut o = *x;
    for i in 0..4 {
        if m[i] {
            o[i] = y[i];
        }
    }
    o
}
fn map(v: &[Fp; 4], f: impl Fn(&Fp) -> Fp) -> [Fp; 4] {
    [f(&v[0]), f(&v[1]), f(&v[2]), f(&v[3])]
}
fn zip(x: &[Fp; 4], y: &[Fp; 4], f: impl Fn(&Fp, &Fp) -> Fp) -> [Fp; 4] {
    [f(&x[0], &y[0]), f(&x[1], &y[1]), f(&x[2], &y[2]), f(&x[3], &y[3])]
}

/// expected lane values
pub fn expected(op: &str, a: &[Vec<u8>]) -> Option<Option<[Fp; 4]>> {
    let ifma = op.starts_with("vi.");
    let val = |i: usize| -> Option<[Fp; 4]> { a.get(i).and_then(|x| if ifma { ifma_values(x) } else { avx2_values(x) }) };
    macro_rules! v {
        ($i:expr) => {
            match val($i) {
                Some(x) => x,
                None => return Some(None),
            }
        };
    }
    let consts = |i: usize| -> Option<[Fp; 4]> {
        let c: Vec<u32> = a.get(i)?.chunks(4).map(|c| u32::from_le_bytes(c.try_into().unwrap())).collect();
        if c.len() != 4 {
            return None;
        }
        Some([Fp::from_u64(c[0] as u64), Fp::from_u64(c[1] as u64), Fp::from_u64(c[2] as u64), Fp::from_u64(c[3] as u64)])
    };
    let ds = |x: &[Fp; 4]| [x[1].sub(&x[0]), x[1].add(&x[0]), x[3].sub(&x[2]), x[3].add(&x[2])];
    if &op[3..] == "new" || &op[3..] == "splat_raw" {
        let lay = crate::layout::fe_layout();
        let mut o = [Fp::ZERO; 4];
        for i in 0..4 {
            let idx = if &op[3..] == "new" { i } else { 0 };
            match a.get(idx).and_then(|x| lay.operand_value(x)) {
                Some(v) => o[i] = v,
                None => return Some(None),
            }
        }
        return Some(Some(o));
    }
    Some(Some(match &op[3..] {
        "id" | "reduce" => v!(0),
        "splat" => {
            if a[0].len() != 32 {
                return Some(None);
            }
            let f = Fp::from_bytes(&a32(&a[0]));
            [f, f, f, f]
        }
        "shuffle" | "rshuffle" => {
            if ifma {
                shuffle_ifma(&v!(0), a[1][0])
            } else {
                shuffle_avx2(&v!(0), a[1][0])
            }
        }
        "blend" | "rblend" => blend(&v!(0), &v!(1), if ifma { blend_mask_ifma(a[2][0]) } else { blend_mask_avx2(a[2][0]) }),
        "negate_lazy" | "neg" => map(&v!(0), |x| x.neg()),
        "diff_sum" => ds(&v!(0)),
        "sqnd" => {
            let x = v!(0);
            [x[0].sq(), x[1].sq(), x[2].sq(), x[3].sq().neg()]
        }
        "square" => map(&v!(0), |x| x.sq()),
        "add" => zip(&v!(0), &v!(1), |x, y| x.add(y)),
        "mul" => zip(&v!(0), &v!(1), |x, y| x.mul(y)),
        "mul_consts" => match consts(1) {
            Some(c) => zip(&v!(0), &c, |x, y| x.mul(y)),
            None => return Some(None),
        },
        "cond" => {
            if a[2][0] & 1 == 1 {
                v!(1)
            } else {
                v!(0)
            }
        }
        _ => return None,
    }))
}

/// documented output bound (exclusive) as (even/26-bit limb, odd/25-bit limb) for AVX2 results, or
/// (limb, limb) for IFMA
pub fn output_bound(op: &str) -> Option<(u64, u64)> {
    let b = |x: f64| ((2f64.powf(26.0 + x)).ceil() as u64, (2f64.powf(25.0 + x)).ceil() as u64);
    match op {
        "v2.id" => None,
        "v2.reduce" | "v2.neg" | "v2.splat" | "v2.new" | "v2.splat_raw" => Some(b(0.0002)),
        "v2.negate_lazy" => Some(b(1.0)),
        "v2.diff_sum" => Some(b(1.6)),
        "v2.sqnd" | "v2.mul" | "v2.mul_consts" => Some(b(0.007)),
        "vi.reduce" | "vi.neg" => Some((1 << 52, 1 << 52)),
        _ => None,
    }
}

pub fn oracle_with(req: &Req, got: &Resp, check_bounds: bool) -> Result<(), String> {
    let want = expected(&req.op, &req.a).ok_or_else(|| format!("no model for {}", req.op))?;
    let ifma = req.op.starts_with("vi.");
    let want = match want {
        None => return if *got == Resp::Rej { Ok(()) } else { Err(format!("{}: malformed operand must be refused, got {}", req.op, got.short())) },
        Some(w) => w,
    };
    let b = match got {
        Resp::Ok(b) if b.len() == 288 => b,
        g => return Err(format!("{}: unexpected response {}", req.op, g.short())),
    };
    let lanes = if ifma { ifma_values(&b[..160]) } else { avx2_values(&b[..160]) }.unwrap();
    for i in 0..4 {
        if lanes[i] != want[i] {
            return Err(format!("{}: lane {} raw limbs denote {} but the model expects {}", req.op, i, crate::util::hex(&lanes[i].to_bytes()), crate::util::hex(&want[i].to_bytes())));
        }
        if b[160 + 32 * i..160 + 32 * i + 32] != want[i].to_bytes()[..] {
            return Err(format!("{}: lane {} split().as_bytes() = {} but the model expects {}", req.op, i, crate::util::hex(&b[160 + 32 * i..160 + 32 * i + 32]), crate::util::hex(&want[i].to_bytes())));
        }
    }
    // a `new`-built operand must also satisfy its documented postcondition
    if check_bounds {
        if let Some((be, bo)) = output_bound(&req.op) {
            for i in 0..4 {
                let n = if ifma { 5 } else { 10 };
                for j in 0..n {
                    let limb = if ifma { u64::from_le_bytes(b[8 * (5 * i + j)..8 * (5 * i + j) + 8].try_into().unwrap()) } else { u32::from_le_bytes(b[4 * (10 * i + j)..4 * (10 * i + j) + 4].try_into().unwrap()) as u64 };
                    let bound = if j % 2 == 0 || ifma { be } else { bo };
                    if limb >= bound {
                        return Err(format!("{}: result lane {} limb {} = {} violates the documented postcondition (< {})", req.op, i, j, limb, bound));
                    }
                }
            }
        }
    }
    Ok(())
}

pub fn oracle(req: &Req, got: &Resp) -> Result<(), String> {
    oracle_with(req, got, false)
}
