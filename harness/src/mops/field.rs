//! Model of the field operations: expected flag bytes and canonical encodings.
use crate::layout::fe_layout;
use crate::model::fp::{self, Fp};
use crate::req::{Req, Resp};

fn ok(flags: &[u8], vals: &[Fp]) -> Resp {
    let mut o = flags.to_vec();
    for v in vals {
        o.extend_from_slice(&v.to_bytes());
    }
    Resp::Ok(o)
}

/// expected (flags || n x 32 canonical bytes); number of field results n
pub fn expected(op: &str, a: &[Vec<u8>]) -> Option<(Resp, usize)> {
    let lay = fe_layout();
    macro_rules! fe {
        ($i:expr) => {
            match a.get($i).and_then(|x| lay.operand_value(x)) {
                Some(x) => x,
                None => return Some((Resp::Rej, 0)),
            }
        };
    }
    Some(match op {
        "fe.id" => (ok(&[], &[fe!(0)]), 1),
        "fe.add" => {
            let r = fe!(0).add(&fe!(1));
            (ok(&[], &[r, r]), 2)
        }
        "fe.sub" => {
            let r = fe!(0).sub(&fe!(1));
            (ok(&[], &[r, r]), 2)
        }
        "fe.mul" => {
            let r = fe!(0).mul(&fe!(1));
            (ok(&[], &[r, r]), 2)
        }
        "fe.neg" => {
            let r = fe!(0).neg();
            (ok(&[], &[r, r]), 2)
        }
        "fe.square" => (ok(&[], &[fe!(0).sq()]), 1),
        "fe.square2" => (ok(&[], &[fe!(0).sq().dbl()]), 1),
        "fe.pow2k" => {
            let k = u32::from_le_bytes(a[1][..4].try_into().unwrap());
            if k == 0 {
                return Some((Resp::Rej, 0));
            }
            let mut r = fe!(0);
            for _ in 0..k {
                r = r.sq();
            }
            (ok(&[], &[r]), 1)
        }
        "fe.invert" => (ok(&[], &[fe!(0).inv()]), 1),
        "fe.batch_invert" => {
            // (inverses cached per distinct operand: the long batches repeat a few values)
            let mut cache: std::collections::HashMap<Vec<u8>, Fp> = std::collections::HashMap::new();
            let mut v = vec![];
            for i in 0..a.len() {
                if let Some(x) = cache.get(&a[i]) {
                    v.push(x.clone());
                } else {
                    let x = fe!(i).inv();
                    cache.insert(a[i].clone(), x.clone());
                    v.push(x);
                }
            }
            let n = v.len();
            (ok(&[], &v), n)
        }
        "fe.sqrt_ratio_i" => {
            let (w, r) = fp::sqrt_ratio_i(&fe!(0), &fe!(1));
            (ok(&[w as u8], &[r]), 1)
        }
        "fe.invsqrt" => {
            let (w, r) = fp::sqrt_ratio_i(&Fp::ONE, &fe!(0));
            (ok(&[w as u8], &[r]), 1)
        }
        "fe.preds" => {
            let x = fe!(0);
            (ok(&[x.is_neg() as u8, x.is_zero() as u8], &[]), 0)
        }
        "fe.eq" => {
            let e = (fe!(0) == fe!(1)) as u8;
            (ok(&[e, e], &[]), 0)
        }
        "fe.cond" => {
            let (x, y) = (fe!(0), fe!(1));
            let c = a[2][0] & 1 == 1;
            let sel = if c { y } else { x };
            let (s1, s2) = if c { (y, x) } else { (x, y) };
            (ok(&[], &[sel, sel, s1, s2, if c { x.neg() } else { x }]), 5)
        }
        _ => return None,
    })
}

pub fn exec(op: &str, a: &[Vec<u8>]) -> Option<Resp> {
    expected(op, a).map(|x| x.0)
}

/// Oracle for fe.* ops: flags and canonical encodings equal the model's; every encoding is < p
/// with bit 255 clear (implied by equality with the model); the raw result limbs denote the same
/// value. `check_bounds`: additionally the documented *output* bound of reducing kernels (C11).
pub fn oracle_with(req: &Req, got: &Resp, check_bounds: bool) -> Result<(), String> {
    let lay = fe_layout();
    let (want, n) = expected(&req.op, &req.a).ok_or_else(|| format!("no model for {}", req.op))?;
    let (wb, gb) = match (&want, got) {
        (Resp::Ok(w), Resp::Ok(g)) => (w, g),
        _ => {
            return if want == *got { Ok(()) } else { Err(format!("{}: model expects {} but the code returned {}", req.op, want.short(), got.short())) };
        }
    };
    if gb.len() != wb.len() + n * lay.nlimbs * 8 {
        return Err(format!("{}: response length {} (expected {} + limbs)", req.op, gb.len(), wb.len()));
    }
    if gb[..wb.len()] != wb[..] {
        return Err(format!("{}: model expects {} but the code returned {}", req.op, want.short(), Resp::Ok(gb[..wb.len()].to_vec()).short()));
    }
    let nflags = wb.len() - 32 * n;
    for i in 0..n {
        let raw = &gb[wb.len() + i * lay.nlimbs * 8..wb.len() + (i + 1) * lay.nlimbs * 8];
        let limbs = lay.decode(raw);
        let v = lay.value(&limbs);
        let want_v = &wb[nflags + 32 * i..nflags + 32 * i + 32];
        if v.to_bytes()[..] != want_v[..] {
            return Err(format!("{}: raw limbs of result {} denote {} but the model expects {}", req.op, i, crate::util::hex(&v.to_bytes()), crate::util::hex(want_v)));
        }
        if check_bounds {
            // closure: whatever an operation returns from admissible inputs must itself be admissible
            // (pure selections return their inputs unchanged and are exempt from nothing: inputs are admissible)
            // (add and the selections do not reduce by design: their callers budget the headroom, which
            // layers 2-3 check along the real call paths; square2 doubles a reduced square)
            for (j, l) in limbs.iter().enumerate() {
                if req.op == "fe.square2" && *l > lay.max_admissible[j] {
                    return Err(format!("{}: result {} limb {} = {} is outside the admissible range (<= {}) of the next operation", req.op, i, j, l, lay.max_admissible[j]));
                }
            }
            // reducing kernels additionally re-establish the documented reduced bound; batch_invert
            // leaves zero inputs untouched (they are not kernel outputs)
            let untouched_zero = req.op == "fe.batch_invert" && v.is_zero();
            if reducing_op(&req.op, i) && !untouched_zero {
                for (j, l) in limbs.iter().enumerate() {
                    if *l > lay.max_reduced[j] {
                        return Err(format!("{}: result {} limb {} = {} exceeds the documented output bound {}", req.op, i, j, l, lay.max_reduced[j]));
                    }
                }
            }
        }
    }
    Ok(())
}

/// results that come out of a reducing kernel (documented output bound applies)
fn reducing_op(op: &str, _result_index: usize) -> bool {
    // square2 is not listed: the u64 back end doubles the limbs of the square without a carry
    // (documented nowhere as reduced); its output is covered by the admissibility check above.
    // sqrt_ratio_i / invsqrt end in conditional negations (reducing) or selections of reduced values.
    matches!(op, "fe.sub" | "fe.mul" | "fe.neg" | "fe.square" | "fe.pow2k" | "fe.invert" | "fe.batch_invert")
}

pub fn oracle(req: &Req, got: &Resp) -> Result<(), String> {
    oracle_with(req, got, false)
}
