use crate::model::big::U256;
use crate::model::eddsa::sha512;
use crate::model::sc::{clamp, Sc};
use crate::req::Resp;
use crate::util::{a32, a64};

fn can(b: &[u8]) -> Option<Sc> {
    if b.len() != 32 {
        return None;
    }
    Sc::from_canonical(&a32(b))
}
fn rep(s: &Sc, n: usize) -> Resp {
    let mut o = vec![];
    for _ in 0..n {
        o.extend_from_slice(&s.to_bytes());
    }
    Resp::Ok(o)
}
fn pad64(x: &[u8]) -> [u8; 64] {
    let mut o = [0u8; 64];
    let n = x.len().min(64);
    o[..n].copy_from_slice(&x[..n]);
    o
}

pub fn exec(op: &str, a: &[Vec<u8>]) -> Option<Resp> {
    macro_rules! need {
        ($e:expr) => {
            match $e {
                Some(x) => x,
                None => return Some(Resp::Rej),
            }
        };
    }
    Some(match op {
        "sc.reduce32" => {
            if a[0].len() != 32 {
                return Some(Resp::Rej);
            }
            rep(&Sc::from_bytes_mod_order(&a32(&a[0])), 1)
        }
        "sc.reduce64" => {
            if a[0].len() != 64 {
                return Some(Resp::Rej);
            }
            rep(&Sc::from_bytes_mod_order_wide(&a64(&a[0])), 1)
        }
        "sc.canonical" => rep(&need!(can(&a[0])), 2),
        "sc.hash_sha512" => rep(&Sc::from_bytes_mod_order_wide(&sha512(&[&a[0]])), 2),
        "sc.hash_pass" => rep(&Sc::from_bytes_mod_order_wide(&pad64(&a[0])), 2),
        "sc.random" => {
            // 64 bytes drawn from the byte-fed RNG (cyclic), reduced
            let mut b = [0u8; 64];
            for i in 0..64 {
                b[i] = if a[0].is_empty() { 0 } else { a[0][i % a[0].len()] };
            }
            rep(&Sc::from_bytes_mod_order_wide(&b), 1)
        }
        "sc.from_uint" => {
            let w = a[0][0] as usize;
            if ![1, 2, 4, 8, 16].contains(&w) {
                return Some(Resp::Rej);
            }
            rep(&Sc::from_u256(&U256::from_le_slice(&a[1][..w])), 1)
        }
        "sc.add" => rep(&need!(can(&a[0])).add(&need!(can(&a[1]))), 6),
        "sc.sub" => rep(&need!(can(&a[0])).sub(&need!(can(&a[1]))), 6),
        "sc.mul" => rep(&need!(can(&a[0])).mul(&need!(can(&a[1]))), 6),
        "sc.neg" => rep(&need!(can(&a[0])).neg(), 2),
        "sc.sum" => {
            let mut s = Sc::ZERO;
            for x in a {
                s = s.add(&need!(can(x)));
            }
            rep(&s, 2)
        }
        "sc.product" => {
            let mut s = Sc::ONE;
            for x in a {
                s = s.mul(&need!(can(x)));
            }
            rep(&s, 2)
        }
        "sc.invert" => rep(&need!(can(&a[0])).inv(), 1),
        "sc.batch_invert" => {
            let mut o = vec![];
            let mut prod = Sc::ONE;
            for x in a {
                let s = need!(can(x));
                prod = prod.mul(&s);
                o.extend_from_slice(&s.inv().to_bytes());
            }
            o.extend_from_slice(&prod.inv().to_bytes());
            Resp::Ok(o)
        }
        "sc.eq" => {
            let e = (need!(can(&a[0])) == need!(can(&a[1]))) as u8;
            Resp::Ok(vec![e, e])
        }
        "sc.cond_select" => {
            let x = need!(can(&a[0]));
            let y = need!(can(&a[1]));
            let c = a[2][0] & 1 == 1;
            let sel = if c { y } else { x };
            let (s1, s2) = if c { (y, x) } else { (x, y) };
            let mut o = sel.to_bytes().to_vec();
            o.extend_from_slice(&sel.to_bytes());
            o.extend_from_slice(&s1.to_bytes());
            o.extend_from_slice(&s2.to_bytes());
            Resp::Ok(o)
        }
        "sc.consts" => {
            let mut o = Sc::ZERO.to_bytes().to_vec();
            o.extend_from_slice(&Sc::ONE.to_bytes());
            o.extend_from_slice(&Sc::ZERO.to_bytes());
            Resp::Ok(o)
        }
        "sc.from_bits" => {
            if a[0].len() != 32 {
                return Some(Resp::Rej);
            }
            let mut b = a32(&a[0]);
            b[31] &= 0x7f;
            Resp::Ok(b.to_vec())
        }
        "sc.clamp" => {
            if a[0].len() != 32 {
                return Some(Resp::Rej);
            }
            Resp::Ok(clamp(&a32(&a[0])).to_vec())
        }
        _ => return None,
    })
}
