//! Model of the scalar-multiplication entry points: sum s_i * P_i by the definition.
//! Points of the generator pool have known discrete logs (a*B + t*T8), so any multiscalar
//! expression over them is one model scalar multiplication in the abstract group Z/l x Z/8.
use crate::gens::{pool, torsion};
use crate::model::big::{U256, U512};
use crate::model::ed::Aff;
use crate::model::sc::{clamp, Sc};
use crate::req::{Req, Resp};
use crate::util::a32;
use std::collections::HashMap;
use std::sync::OnceLock;

fn dlog_table() -> &'static HashMap<[u8; 32], (Sc, u8)> {
    static T: OnceLock<HashMap<[u8; 32], (Sc, u8)>> = OnceLock::new();
    T.get_or_init(|| {
        let mut m = HashMap::new();
        for (a, p) in pool().pts.iter() {
            for t in 0..8u8 {
                let q = p.add(&torsion()[t as usize]);
                m.insert(q.neg().compress(), (a.neg(), (8 - t) % 8));
                m.insert(q.compress(), (*a, t));
            }
        }
        for t in 0..8u8 {
            m.insert(torsion()[t as usize].compress(), (Sc::ZERO, t));
        }
        m.insert(Aff::basepoint().compress(), (Sc::ONE, 0));
        m
    })
}

/// Accumulates sum s_i * P_i
pub struct Acc {
    a: Sc,
    t: u64,
    rest: Aff,
}
impl Acc {
    pub fn new() -> Acc {
        Acc { a: Sc::ZERO, t: 0, rest: Aff::IDENTITY }
    }
    /// s is the integer the scalar bytes denote (any value below 2^256)
    pub fn add(&mut self, s: &U256, p_enc: &[u8; 32]) -> Option<()> {
        if let Some((a, t)) = dlog_table().get(p_enc) {
            self.a = self.a.add(&Sc::from_u256(s).mul(a));
            self.t = (self.t + (s.low_u64() % 8) * (*t as u64)) % 8;
        } else {
            let p = Aff::decompress(p_enc)?;
            self.rest = self.rest.add(&p.mul(s));
        }
        Some(())
    }
    pub fn add_base(&mut self, s: &U256) {
        self.a = self.a.add(&Sc::from_u256(s));
    }
    pub fn finish(&self) -> Aff {
        Aff::basepoint().mul(&self.a.0).add(&torsion()[self.t as usize]).add(&self.rest)
    }
}

fn scalar_int(b: &[u8]) -> Option<U256> {
    if b.len() != 32 || b[31] >> 7 != 0 {
        return None;
    }
    Some(U256::from_le(&a32(b)))
}

fn rep(p: &Aff, n: usize) -> Resp {
    let mut o = vec![];
    for _ in 0..n {
        o.extend_from_slice(&p.compress());
    }
    Resp::Ok(o)
}

fn split32(b: &[u8]) -> Option<Vec<[u8; 32]>> {
    if b.len() % 32 != 0 {
        return None;
    }
    Some(b.chunks(32).map(a32).collect())
}

pub fn exec(op: &str, a: &[Vec<u8>]) -> Option<Resp> {
    macro_rules! need {
        ($e:expr) => {
            match $e {
                Some(x) => x,
                None => return Some(Resp::Rej),
            }
        };
    }
    let pt_ok = |b: &[u8]| b.len() == 32 && Aff::decompress(&a32(b)).is_some();
    Some(match op {
        "sm.var_base" => {
            let s = need!(scalar_int(&a[0]));
            if !pt_ok(&a[1]) {
                return Some(Resp::Rej);
            }
            let mut acc = Acc::new();
            need!(acc.add(&s, &a32(&a[1])));
            rep(&acc.finish(), 10)
        }
        "sm.mul_base" => {
            let s = need!(scalar_int(&a[0]));
            rep(&Aff::basepoint().mul(&s), 1)
        }
        "sm.const_table" => {
            let s = need!(scalar_int(&a[0]));
            let r = Aff::basepoint().mul(&s);
            let mut o = vec![];
            for _ in 0..3 {
                o.extend_from_slice(&r.compress());
            }
            o.extend_from_slice(&Aff::basepoint().compress());
            Resp::Ok(o)
        }
        "sm.mul_clamped" => {
            if a[0].len() != 32 || !pt_ok(&a[1]) {
                return Some(Resp::Rej);
            }
            let k = U256::from_le(&clamp(&a32(&a[0])));
            let mut acc = Acc::new();
            need!(acc.add(&k, &a32(&a[1])));
            rep(&acc.finish(), 1)
        }
        "sm.mul_base_clamped" => {
            if a[0].len() != 32 {
                return Some(Resp::Rej);
            }
            rep(&Aff::basepoint().mul(&U256::from_le(&clamp(&a32(&a[0])))), 1)
        }
        "sm.table" => {
            if !(4..=8).contains(&a[0][0]) || !pt_ok(&a[1]) || a[3].len() != 32 {
                return Some(Resp::Rej);
            }
            let s = need!(scalar_int(&a[2]));
            let p = Aff::decompress(&a32(&a[1])).unwrap();
            let mut acc = Acc::new();
            need!(acc.add(&s, &a32(&a[1])));
            let r = acc.finish();
            let mut acc2 = Acc::new();
            need!(acc2.add(&U256::from_le(&clamp(&a32(&a[3]))), &a32(&a[1])));
            let mut o = p.compress().to_vec();
            for _ in 0..3 {
                o.extend_from_slice(&r.compress());
            }
            o.extend_from_slice(&acc2.finish().compress());
            Resp::Ok(o)
        }
        "sm.table_convert" => {
            if a[0].is_empty() || a[0].iter().any(|r| !(4..=8).contains(r)) || !pt_ok(&a[1]) {
                return Some(Resp::Rej);
            }
            let s = need!(scalar_int(&a[2]));
            let p = Aff::decompress(&a32(&a[1])).unwrap();
            let mut acc = Acc::new();
            need!(acc.add(&s, &a32(&a[1])));
            let mut o = p.compress().to_vec();
            o.extend_from_slice(&acc.finish().compress());
            Resp::Ok(o)
        }
        "sm.double_base" => {
            let x = need!(scalar_int(&a[0]));
            let y = need!(scalar_int(&a[2]));
            if !pt_ok(&a[1]) {
                return Some(Resp::Rej);
            }
            let mut acc = Acc::new();
            need!(acc.add(&x, &a32(&a[1])));
            acc.add_base(&y);
            rep(&acc.finish(), 1)
        }
        "sm.msm" => {
            let kind = a[0][0];
            let ss = need!(split32(&a[2]));
            let ps = need!(split32(&a[3]));
            if ss.len() != ps.len() {
                return Some(Resp::Rej);
            }
            let mut acc = Acc::new();
            let mut any_none = false;
            for (i, (s, p)) in ss.iter().zip(ps.iter()).enumerate() {
                let si = need!(scalar_int(s));
                if !pt_ok(p) {
                    return Some(Resp::Rej);
                }
                if kind == 2 && a[1].get(i / 8).map(|b| b >> (i % 8) & 1 == 1).unwrap_or(false) {
                    any_none = true;
                }
                need!(acc.add(&si, p));
            }
            if any_none {
                return Some(Resp::Rej);
            }
            rep(&acc.finish(), 1)
        }
        "sm.chain" => {
            if a[0].len() != 32 || a[1].len() % 65 != 0 {
                return Some(Resp::Rej);
            }
            let mut q = need!(Aff::decompress(&a32(&a[0])));
            let mut r = q;
            let mut o = vec![];
            for st in a[1].chunks(65) {
                let s = need!(scalar_int(&st[1..33]));
                let t = need!(scalar_int(&st[33..65]));
                let prev = q;
                q = match st[0] % 8 {
                    0 => q.mul(&s),
                    1 => q.mul(&s).add(&Aff::basepoint().mul(&t)),
                    2 | 3 => q.mul(&s).add(&r.mul(&t)),
                    4 => q.add(&r),
                    5 => Aff::basepoint().mul(&s).add(&q),
                    6 => q.neg(),
                    _ => q.mul(&s).sub(&r.mul(&t)),
                };
                r = prev;
                o.extend_from_slice(&q.compress());
            }
            Resp::Ok(o)
        }
        "sm.precomp" => {
            let variant = a[0][0];
            let sp = need!(split32(&a[1]));
            let ss = need!(split32(&a[2]));
            let ds = need!(split32(&a[3]));
            let dp = need!(split32(&a[4]));
            if ss.len() > sp.len() || ds.len() != dp.len() {
                return Some(Resp::Rej);
            }
            if sp.iter().chain(dp.iter()).any(|p| !pt_ok(p)) {
                return Some(Resp::Rej);
            }
            if variant == 0 && !ds.is_empty() {
                return Some(Resp::Rej);
            }
            let mut acc = Acc::new();
            for (s, p) in ss.iter().zip(sp.iter()) {
                need!(acc.add(&need!(scalar_int(s)), p));
            }
            let mut any_none = false;
            for (i, (s, p)) in ds.iter().zip(dp.iter()).enumerate() {
                need!(acc.add(&need!(scalar_int(s)), p));
                if variant >= 2 && a[5].get(i / 8).map(|b| b >> (i % 8) & 1 == 1).unwrap_or(false) {
                    any_none = true;
                }
            }
            if any_none {
                return Some(Resp::Rej);
            }
            let mut o = acc.finish().compress().to_vec();
            o.extend_from_slice(&(sp.len() as u32).to_le_bytes());
            o.push(sp.is_empty() as u8);
            Resp::Ok(o)
        }
        _ => return None,
    })
}

/// Validity-predicate oracle for the recoders: the digits denote the integer and respect the
/// documented digit ranges / sparsity.
pub fn recode_oracle(req: &Req, got: &Resp) -> Result<(), String> {
    let s = match scalar_int(&req.a[0]) {
        Some(s) => s,
        None => return if *got == Resp::Rej { Ok(()) } else { Err("recode: scalar >= 2^255 must be refused by the harness".into()) },
    };
    let b = match got {
        Resp::Ok(b) => b,
        g => return Err(format!("recode: {}", g.short())),
    };
    let kind = req.a[1][0];
    let w = req.a[2][0] as usize;
    let d: Vec<i64> = b.iter().map(|x| *x as i8 as i64).collect();
    // value = sum d_i * 2^(step*i), as positive and negative parts in 512 bits
    let value = |digits: &[i64], step: usize| -> Result<U256, String> {
        let mut pos = U512::ZERO;
        let mut neg = U512::ZERO;
        for (i, di) in digits.iter().enumerate() {
            if *di == 0 {
                continue;
            }
            if step * i + 9 >= 512 {
                return Err(format!("digit {} at position {} is out of range", di, i));
            }
            let mag = shl512(&U256::from_u64(di.unsigned_abs()).widen(), step * i);
            if *di > 0 {
                pos = pos.add_c(&mag).0;
            } else {
                neg = neg.add_c(&mag).0;
            }
        }
        let (v, borrow) = pos.sub_b(&neg);
        if borrow || !v.hi().is_zero() {
            return Err("digits denote a negative or > 256-bit integer".into());
        }
        Ok(v.lo())
    };
    match kind {
        0 => {
            if d.len() != 64 {
                return Err("radix16: 64 digits expected".into());
            }
            for (i, di) in d.iter().enumerate() {
                let hi = if i == 63 { 8 } else { 7 };
                if *di < -8 || *di > hi {
                    return Err(format!("radix16: digit {} = {} out of the documented range", i, di));
                }
            }
            if value(&d, 4)? != s {
                return Err("radix16: digits do not denote the scalar".into());
            }
        }
        1 => {
            if d.len() != 65 {
                return Err("radix2w: 64 digits + size hint expected".into());
            }
            let hint = d[64] as usize;
            let want_hint = if w == 8 { 33 } else { (256 + w - 1) / w };
            if hint != want_hint {
                return Err(format!("radix2w: size hint {} (documented {})", hint, want_hint));
            }
            let half = 1i64 << (w - 1);
            for i in 0..64 {
                if i >= hint && d[i] != 0 {
                    return Err(format!("radix2w(w={}): non-zero digit {} beyond the size hint", w, i));
                }
                let hi = if i + 1 == hint { half } else { half - 1 };
                // i8 cannot hold +128: for w = 8 the documented range of the non-final digits is [-128,128)
                if d[i] < -half || d[i] > hi {
                    return Err(format!("radix2w(w={}): digit {} = {} out of the documented range", w, i, d[i]));
                }
            }
            if value(&d[..64], w)? != s {
                return Err(format!("radix2w(w={}): digits do not denote the scalar", w));
            }
        }
        _ => {
            if d.len() != 256 {
                return Err("naf: 256 digits expected".into());
            }
            let bound = 1i64 << (w - 1);
            let mut last_nz: Option<usize> = None;
            for (i, di) in d.iter().enumerate() {
                if *di == 0 {
                    continue;
                }
                if di % 2 == 0 || di.abs() >= bound {
                    return Err(format!("naf(w={}): digit {} = {} is not odd with |d| < 2^(w-1)", w, i, di));
                }
                if let Some(j) = last_nz {
                    if i - j < w {
                        return Err(format!("naf(w={}): non-zero digits at {} and {} are closer than w", w, j, i));
                    }
                }
                last_nz = Some(i);
            }
            if value(&d, 1)? != s {
                return Err(format!("naf(w={}): digits do not denote the scalar", w));
            }
        }
    }
    Ok(())
}

fn shl512(x: &U512, n: usize) -> U512 {
    let (w, b) = (n / 64, n % 64);
    let mut r = [0u64; 8];
    for i in (w..8).rev() {
        r[i] = x.0[i - w] << b;
        if b > 0 && i > w {
            r[i] |= x.0[i - w - 1] >> (64 - b);
        }
    }
    U512(r)
}
