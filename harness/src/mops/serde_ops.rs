//! Model of serialisation: canonical encodings, and the native validity rule per type.
use crate::model::ed::Aff;
use crate::model::rist;
use crate::model::sc::Sc;
use crate::req::{Req, Resp};
use crate::util::a32;

pub fn type_len(ty: u8) -> usize {
    if ty == 8 {
        64
    } else {
        32
    }
}
/// does the native decoder of the type accept these bytes (exact length assumed)
pub fn native_ok(ty: u8, raw: &[u8]) -> bool {
    if raw.len() != type_len(ty) {
        return false;
    }
    match ty {
        0 => Sc::from_canonical(&a32(raw)).is_some(),
        1 | 7 => Aff::decompress(&a32(raw)).is_some(),
        3 => rist::decode(&a32(raw)).is_some(),
        _ => true,
    }
}
/// what the value encodes back to (EdwardsPoint normalises non-canonical y / x=0 sign)
pub fn native_reencode(ty: u8, raw: &[u8]) -> Vec<u8> {
    match ty {
        1 => Aff::decompress(&a32(raw)).unwrap().compress().to_vec(),
        _ => raw.to_vec(),
    }
}
fn is_bytes_type(ty: u8) -> bool {
    ty == 6 || ty == 7
}

pub fn expected_roundtrip(ty: u8, raw: &[u8]) -> Resp {
    if !native_ok(ty, raw) {
        return Resp::Rej;
    }
    let enc = native_reencode(ty, raw);
    let mut b = vec![];
    if is_bytes_type(ty) {
        b.extend_from_slice(&(enc.len() as u64).to_le_bytes());
    }
    b.extend_from_slice(&enc);
    let j = format!("[{}]", enc.iter().map(|x| x.to_string()).collect::<Vec<_>>().join(",")).into_bytes();
    let mut o = (b.len() as u16).to_le_bytes().to_vec();
    o.extend_from_slice(&b);
    o.extend_from_slice(&(j.len() as u16).to_le_bytes());
    o.extend_from_slice(&j);
    o.extend_from_slice(&enc);
    o.extend_from_slice(&enc);
    o.push(1); // serialiser errors propagate (bounded sinks)
    Resp::Ok(o)
}

/// expected outcome of sd.de for the shapes the generator produces
pub fn expected_de(ty: u8, fmt: u8, shape: u8, raw: &[u8]) -> Option<Resp> {
    let l = type_len(ty);
    let ok = |r: &[u8]| if native_ok(ty, r) { Resp::Ok(native_reencode(ty, r)) } else { Resp::Rej };
    let fmt = fmt % 5;
    if fmt == 2 && (ty == 5 || ty == 9 || ty == 10) {
        // derived newtype structs: a bare sequence deserialiser hands the sequence to the struct visitor, which
        // takes it for the list of FIELDS (serde's rule, not the crate's) - not asserted
        return None;
    }
    if fmt == 2 || fmt == 3 {
        // a sequence of u8 elements of known length: accepted iff the length is the type's and the native decoder accepts
        return Some(ok(raw));
    }
    if fmt == 4 {
        // a byte slice: only the types that ask for bytes take it; the external Signature type is not asserted
        return if ty == 8 { None } else if is_bytes_type(ty) { Some(ok(raw)) } else { Some(Resp::Rej) };
    }
    Some(if fmt == 0 {
        if is_bytes_type(ty) {
            if shape == 1 {
                // claimed length 32: short content = truncated stream -> Err; longer content is trailing data (not asserted)
                if raw.len() < 32 { Resp::Rej } else if raw.len() == 32 { ok(raw) } else { return None }
            } else {
                ok(raw) // length prefix = raw.len(): accepted iff it is 32 and the key is valid
            }
        } else if raw.len() < l {
            Resp::Rej
        } else if raw.len() == l {
            ok(raw)
        } else {
            return None; // trailing bytes after a complete bincode value: the format's concern
        }
    } else {
        match shape {
            0 | 7 => ok(raw),
            // a JSON string: serde_json hands the string's bytes to visit_bytes when the type asks for
            // bytes (SigningKey, VerifyingKey use deserialize_bytes), so a 32-character string is a
            // 32-byte key whose bytes are the ASCII characters; tuple-based types reject strings
            2 => {
                let ascii = crate::util::hex(raw).into_bytes();
                if is_bytes_type(ty) { ok(&ascii) } else { Resp::Rej }
            }
            1 | 3 | 4 | 5 => Resp::Rej,
            // a trailing element that is not a u8: always an error, whatever precedes it
            8 | 9 | 10 | 11 => Resp::Rej,
            6 => if raw.is_empty() { ok(raw) } else { Resp::Rej },
            _ => return None,
        }
    })
}

pub fn exec(op: &str, a: &[Vec<u8>]) -> Option<Resp> {
    match op {
        "sd.roundtrip" => Some(expected_roundtrip(a[0][0], &a[1])),
        "sd.de" => expected_de(a[0][0], a[1][0], a[2][0], &a[3]),
        _ => None,
    }
}

/// sd.raw: no exact model (arbitrary wire bytes); validity predicate: never a panic, and whatever is
/// accepted must be a value the native decoder accepts
pub fn oracle_raw(req: &Req, got: &Resp) -> Result<(), String> {
    match got {
        Resp::Rej => Ok(()),
        Resp::Ok(v) => {
            let ty = req.a[0][0].min(10);
            if native_ok(ty, v) || (ty == 1 && v.len() == 32) {
                Ok(())
            } else {
                Err(format!("deserialiser of type {} accepted a value whose encoding {} the native decoder rejects", ty, crate::util::hex(v)))
            }
        }
        g => Err(format!("sd.raw: {}", g.short())),
    }
}
