//! Model executors: the expected response of a request according to the reference model.
//! `None` = this op has no model (differential-only).
use crate::req::{Req, Resp};
pub mod consts;
pub mod eddsa;
pub mod edwards;
pub mod field;
pub mod group_ops;
pub mod memory;
pub mod montgomery;
pub mod ristretto;
pub mod scalar;
pub mod scalarmul;
pub mod serde_ops;
pub mod totality;
pub mod vector;

pub fn exec(req: &Req) -> Option<Resp> {
    let op = req.op.as_str();
    if op.starts_with("sc.") {
        return scalar::exec(op, &req.a);
    }
    if op.starts_with("fe.") {
        return field::exec(op, &req.a);
    }
    if op.starts_with("ed.") {
        return edwards::exec(op, &req.a);
    }
    if op.starts_with("sm.") {
        return scalarmul::exec(op, &req.a);
    }
    if op.starts_with("rs.") {
        return ristretto::exec(op, &req.a);
    }
    if op.starts_with("sig.") {
        return eddsa::exec(op, &req.a);
    }
    if op.starts_with("sd.") {
        return serde_ops::exec(op, &req.a);
    }
    if op.starts_with("tot.") {
        return totality::exec(op, &req.a);
    }
    if op.starts_with("mt.") || op.starts_with("x.") {
        return montgomery::exec(op, &req.a);
    }
    None
}

/// The standard model oracle.
pub fn oracle(req: &Req, got: &Resp) -> Result<(), String> {
    if req.op.starts_with("fe.") {
        return field::oracle(req, got);
    }
    if req.op.starts_with("v2.") || req.op.starts_with("vi.") {
        return vector::oracle(req, got);
    }
    if req.op.starts_with("mem.") {
        return memory::oracle(req, got);
    }
    if req.op.starts_with("gp.") {
        return group_ops::oracle(req, got);
    }
    if req.op == "sd.raw" {
        return serde_ops::oracle_raw(req, got);
    }
    if req.op == "sig.batch" {
        return eddsa::oracle_batch(req, got);
    }
    if req.op == "tot.verify_longctx" {
        return totality::oracle_longctx(req, got);
    }
    if req.op == "sm.recode" {
        return scalarmul::recode_oracle(req, got);
    }
    if req.op == "ed.decompress_coords" || req.op == "ed.history_coords" {
        return edwards::oracle_coords(req, got);
    }
    if req.op == "rs.elligator" {
        return ristretto::oracle_elligator(req, got);
    }
    if req.op.starts_with("k.") || req.op.starts_with("kp.") {
        return consts::oracle(req, got);
    }
    match exec(req) {
        None => Err(format!("no model for op {}", req.op)),
        Some(want) => {
            if *got == want {
                Ok(())
            } else {
                Err(format!("{}: model expects {} but the code returned {}", req.op, want.short(), got.short()))
            }
        }
    }
}
