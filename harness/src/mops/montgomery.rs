//! Model of the Montgomery / X25519 operations: RFC 7748 on integers + the birational map.
use crate::model::big::U256;
use crate::model::ed::Aff;
use crate::model::eddsa;
use crate::model::fp::Fp;
use crate::model::mont;
use crate::model::sc::{clamp, Sc};
use crate::req::Resp;
use crate::util::a32;

fn scalar_int(b: &[u8]) -> Option<U256> {
    if b.len() != 32 || b[31] >> 7 != 0 {
        return None;
    }
    Some(U256::from_le(&a32(b)))
}

/// [k]u on the x-line for any integer k < 2^255 (255 ladder steps from bit 254 down)
fn ladder_int(k: &U256, u: &Fp) -> Fp {
    mont::ladder(k, 255, u)
}

/// dalek's to_edwards: None iff u = -1 or u is on the twist; else the point with y = (u-1)/(u+1)
/// and the requested sign (decoded by the Edwards rule, so x = 0 ignores the sign)
pub fn to_edwards(u: &Fp, sign: u8) -> Option<Aff> {
    if *u == Fp::ONE.neg() {
        return None;
    }
    let y = u.sub(&Fp::ONE).div(&u.add(&Fp::ONE));
    let mut b = y.to_bytes();
    b[31] |= (sign & 1) << 7; // dalek: y_bytes[31] ^= sign << 7 with sign a u8: only bit 0 matters? see oracle note
    Aff::decompress(&b)
}

pub fn exec(op: &str, a: &[Vec<u8>]) -> Option<Resp> {
    macro_rules! need {
        ($e:expr) => {
            match $e {
                Some(x) => x,
                None => return Some(Resp::Rej),
            }
        };
    }
    let b32 = |x: &Vec<u8>| if x.len() == 32 { Some(a32(x)) } else { None };
    Some(match op {
        "mt.mul" => {
            let u = Fp::from_bytes(&need!(b32(&a[0])));
            let s = need!(scalar_int(&a[1]));
            let r = ladder_int(&s, &u).to_bytes();
            let mut o = vec![];
            for _ in 0..10 {
                o.extend_from_slice(&r);
            }
            Resp::Ok(o)
        }
        "mt.mul_bits_be" => {
            let u = Fp::from_bytes(&need!(b32(&a[0])));
            let n = u16::from_le_bytes([a[1][0], a[1][1]]) as usize;
            if a[2].len() * 8 < n {
                return Some(Resp::Rej);
            }
            let bits: Vec<bool> = (0..n).map(|i| a[2][i / 8] >> (i % 8) & 1 == 1).collect();
            Resp::Ok(mont::ladder_bits_be(&bits, &u).to_bytes().to_vec())
        }
        "mt.mul_clamped" => Resp::Ok(mont::x25519(&need!(b32(&a[1])), &need!(b32(&a[0]))).to_vec()),
        "mt.mul_base" => {
            let s = need!(scalar_int(&a[0]));
            Resp::Ok(Aff::basepoint().mul(&s).to_montgomery_u().to_bytes().to_vec())
        }
        "mt.mul_base_clamped" => {
            let k = need!(b32(&a[0]));
            let mut nine = [0u8; 32];
            nine[0] = 9;
            let r = mont::x25519(&k, &nine);
            // and through the Edwards model
            let e = Aff::basepoint().mul(&U256::from_le(&clamp(&k))).to_montgomery_u().to_bytes();
            if r != e {
                return Some(Resp::Panic("model: RFC ladder and Edwards model disagree on the base point".into()));
            }
            Resp::Ok(r.to_vec())
        }
        "mt.to_edwards" => {
            let u = Fp::from_bytes(&need!(b32(&a[0])));
            let sign = a[1][0];
            // twist check is implied: decompress fails iff (y^2-1)/(dy^2+1) non-square iff u on the twist
            let p = need!(to_edwards(&u, sign));
            if mont::on_curve(&u) != true {
                return Some(Resp::Panic("model: to_edwards accepted a twist point".into()));
            }
            Resp::Ok(p.compress().to_vec())
        }
        "mt.from_edwards" => {
            let p = need!(b32(&a[0]).and_then(|e| Aff::decompress(&e)));
            Resp::Ok(p.to_montgomery_u().to_bytes().to_vec())
        }
        "mt.eq" => {
            let e = (Fp::from_bytes(&need!(b32(&a[0]))) == Fp::from_bytes(&need!(b32(&a[1])))) as u8;
            Resp::Ok(vec![e, e, e])
        }
        "x.x25519" => Resp::Ok(mont::x25519(&need!(b32(&a[0])), &need!(b32(&a[1]))).to_vec()),
        "x.dh" => {
            let k = need!(b32(&a[1]));
            let peer = need!(b32(&a[2]));
            let mut nine = [0u8; 32];
            nine[0] = 9;
            let public = mont::x25519(&k, &nine);
            let shared = mont::x25519(&k, &peer);
            let mut o = public.to_vec();
            o.extend_from_slice(&shared);
            o.push((shared != [0u8; 32]) as u8);
            o.extend_from_slice(&k);
            o.extend_from_slice(&shared);
            Resp::Ok(o)
        }
        "x.two_party" => {
            let (ka, kb) = (need!(b32(&a[0])), need!(b32(&a[1])));
            let mut nine = [0u8; 32];
            nine[0] = 9;
            let s = mont::x25519(&ka, &mont::x25519(&kb, &nine));
            let s2 = mont::x25519(&kb, &mont::x25519(&ka, &nine));
            let mut o = s.to_vec();
            o.extend_from_slice(&s2);
            Resp::Ok(o)
        }
        "x.ed_to_x" => {
            let seed = need!(b32(&a[0]));
            let h = eddsa::sha512(&[&seed]);
            let sb: [u8; 32] = h[..32].try_into().unwrap();
            let e = eddsa::expand(&seed);
            let pk = Aff::decompress(&e.pk).unwrap();
            let mut nine = [0u8; 32];
            nine[0] = 9;
            let mut o = sb.to_vec();
            o.extend_from_slice(&pk.to_montgomery_u().to_bytes());
            o.extend_from_slice(&mont::x25519(&sb, &nine));
            o.extend_from_slice(&Sc::from_bytes_mod_order(&e.a_bytes).to_bytes());
            o.extend_from_slice(&e.pk);
            Resp::Ok(o)
        }
        _ => return None,
    })
}
