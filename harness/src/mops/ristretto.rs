//! Model of the Ristretto operations: RFC 9496 on integers + the Edwards model.
use crate::model::big::U256;
use crate::model::ed::Aff;
use crate::model::eddsa::sha512;
use crate::model::fp::Fp;
use crate::model::rist;
use crate::model::sc::Sc;
use crate::req::{Req, Resp};
use crate::util::{a32, a64, hex};

pub const NREG: usize = 6;

pub fn rp(b: &[u8]) -> Option<Aff> {
    if b.len() != 32 {
        return None;
    }
    rist::decode(&a32(b))
}
fn scalar_int(b: &[u8]) -> Option<U256> {
    if b.len() != 32 || b[31] >> 7 != 0 {
        return None;
    }
    Some(U256::from_le(&a32(b)))
}
fn split32(b: &[u8]) -> Option<Vec<[u8; 32]>> {
    if b.len() % 32 != 0 {
        return None;
    }
    Some(b.chunks(32).map(a32).collect())
}
fn pad64(x: &[u8]) -> [u8; 64] {
    let mut o = [0u8; 64];
    let n = x.len().min(64);
    o[..n].copy_from_slice(&x[..n]);
    o
}
fn rep(p: &Aff, n: usize) -> Resp {
    let e = rist::encode(p);
    let mut o = vec![];
    for _ in 0..n {
        o.extend_from_slice(&e);
    }
    Resp::Ok(o)
}

pub fn history(regs0: &[u8], prog: &[u8]) -> Option<(Vec<Aff>, Vec<u8>)> {
    if regs0.len() != 32 * NREG || prog.len() % 4 != 0 {
        return None;
    }
    let mut r = vec![];
    for i in 0..NREG {
        r.push(rp(&regs0[32 * i..32 * i + 32])?);
    }
    let mut steps = vec![];
    for ins in prog.chunks(4) {
        let (opc, d, s1, s2) = (ins[0] % 12, ins[1] as usize % NREG, ins[2] as usize % NREG, ins[3] as usize % NREG);
        let imm = ins[3];
        let res = match opc {
            0 => r[s1].add(&r[s2]),
            1 | 11 => r[s1].sub(&r[s2]),
            2 => r[s1].neg(),
            3 => r[s1].dbl(),
            4 => r[d].add(&r[s1]),
            5 => r[d].sub(&r[s1]),
            6 => {
                let mut acc = Aff::IDENTITY;
                for i in 0..NREG {
                    if imm >> i & 1 == 1 {
                        acc = acc.add(&r[i]);
                    }
                }
                acc
            }
            7 => r[s1].mul(&U256::from_u64(imm as u64)),
            8 => r[s1],
            9 => {
                if imm & 1 == 1 {
                    r[(d + 1) % NREG]
                } else {
                    r[s1]
                }
            }
            _ => Aff::IDENTITY,
        };
        r[d] = res;
        steps.push(res);
    }
    let mut fin = vec![];
    for i in 0..NREG {
        for j in 0..NREG {
            fin.push(if rist::equal(&r[i], &r[j]) { 3 } else { 0 });
        }
    }
    Some((steps, fin))
}

pub fn exec(op: &str, a: &[Vec<u8>]) -> Option<Resp> {
    macro_rules! need {
        ($e:expr) => {
            match $e {
                Some(x) => x,
                None => return Some(Resp::Rej),
            }
        };
    }
    Some(match op {
        "rs.decompress" => {
            let p = need!(rp(&a[0]));
            // canonical: re-encoding returns the input bytes
            let e = rist::encode(&p);
            if e[..] != a[0][..] {
                return Some(Resp::Panic("model: decode accepted a non-canonical encoding".into()));
            }
            Resp::Ok(e.to_vec())
        }
        "rs.from_uniform" => {
            if a[0].len() != 64 {
                return Some(Resp::Rej);
            }
            rep(&rist::from_uniform_bytes(&a64(&a[0])), 1)
        }
        "rs.hash_pass" => rep(&rist::from_uniform_bytes(&pad64(&a[0])), 2),
        "rs.hash_sha512" => rep(&rist::from_uniform_bytes(&sha512(&[&a[0]])), 1),
        "rs.random" => {
            let mut b = [0u8; 64];
            for i in 0..64 {
                b[i] = if a[0].is_empty() { 0 } else { a[0][i % a[0].len()] };
            }
            rep(&rist::from_uniform_bytes(&b), 1)
        }
        "rs.history" => match history(&a[0], &a[1]) {
            None => Resp::Rej,
            Some((steps, fin)) => {
                let mut o = vec![];
                for s in steps {
                    o.extend_from_slice(&rist::encode(&s));
                }
                o.extend_from_slice(&fin);
                Resp::Ok(o)
            }
        },
        "rs.eq" => {
            let (x, y) = (need!(rp(&a[0])), need!(rp(&a[1])));
            let e = rist::equal(&x, &y) as u8;
            let c = (a[0] == a[1]) as u8;
            // distinct elements encode differently and vice versa
            if e != c {
                return Some(Resp::Panic("model: equality and encoding equality disagree".into()));
            }
            Resp::Ok(vec![e, e, c, c])
        }
        "rs.batch" => {
            let ps = need!(split32(&a[0]));
            let mut o = vec![];
            for p in ps {
                o.extend_from_slice(&rist::encode(&need!(rp(&p)).dbl()));
            }
            Resp::Ok(o)
        }
        "rs.compressed_eq" => {
            if a[0].len() != 32 || a[1].len() != 32 {
                return Some(Resp::Rej);
            }
            let e = (a[0] == a[1]) as u8;
            Resp::Ok(vec![e, e, e, (a[0].iter().all(|x| *x == 0)) as u8])
        }
        "rs.sum_many" => {
            let ps = need!(split32(&a[0]));
            let mut acc = Aff::IDENTITY;
            for p in ps.iter() {
                acc = acc.add(&need!(rp(p)));
            }
            let e = rist::encode(&acc);
            let mut o = e.to_vec();
            o.extend_from_slice(&e);
            Resp::Ok(o)
        }
        "rs.reps" => {
            let p = need!(rp(&a[0]));
            let mut o = a[0].clone();
            o.push(1);
            o.push(1);
            let d = rist::encode(&p.dbl());
            for _ in 0..3 {
                o.extend_from_slice(&d);
            }
            Resp::Ok(o)
        }
        "rs.mul" => {
            let s = need!(scalar_int(&a[0]));
            rep(&need!(rp(&a[1])).mul(&s), 10)
        }
        "rs.mul_base" => rep(&Aff::basepoint().mul(&need!(scalar_int(&a[0]))), 1),
        "rs.table" => {
            let s = need!(scalar_int(&a[0]));
            let p = need!(rp(&a[1]));
            let b = Aff::basepoint();
            let mut o = vec![];
            for r in [b.mul(&s), b.mul(&s), b, p.mul(&s), p.mul(&s), p] {
                o.extend_from_slice(&rist::encode(&r));
            }
            Resp::Ok(o)
        }
        "rs.double_base" => {
            let x = need!(scalar_int(&a[0]));
            let p = need!(rp(&a[1]));
            let y = need!(scalar_int(&a[2]));
            rep(&p.mul(&x).add(&Aff::basepoint().mul(&y)), 1)
        }
        "rs.msm" => {
            let kind = a[0][0];
            let ss = need!(split32(&a[2]));
            let ps = need!(split32(&a[3]));
            if ss.len() != ps.len() {
                return Some(Resp::Rej);
            }
            let mut acc = Aff::IDENTITY;
            let mut any_none = false;
            for (i, (s, p)) in ss.iter().zip(ps.iter()).enumerate() {
                acc = acc.add(&need!(rp(p)).mul(&need!(scalar_int(s))));
                if kind >= 2 && a[1].get(i / 8).map(|b| b >> (i % 8) & 1 == 1).unwrap_or(false) {
                    any_none = true;
                }
            }
            if any_none {
                return Some(Resp::Rej);
            }
            rep(&acc, 1)
        }
        "rs.precomp" => {
            let variant = a[0][0];
            let sp = need!(split32(&a[1]));
            let ss = need!(split32(&a[2]));
            let ds = need!(split32(&a[3]));
            let dp = need!(split32(&a[4]));
            if ss.len() > sp.len() || ds.len() != dp.len() {
                return Some(Resp::Rej);
            }
            let mut spv = vec![];
            for p in &sp {
                spv.push(need!(rp(p)));
            }
            let mut dpv = vec![];
            for p in &dp {
                dpv.push(need!(rp(p)));
            }
            if variant == 0 && !ds.is_empty() {
                return Some(Resp::Rej);
            }
            let mut acc = Aff::IDENTITY;
            for (s, p) in ss.iter().zip(spv.iter()) {
                acc = acc.add(&p.mul(&need!(scalar_int(s))));
            }
            let mut any_none = false;
            for (i, (s, p)) in ds.iter().zip(dpv.iter()).enumerate() {
                acc = acc.add(&p.mul(&need!(scalar_int(s))));
                if variant >= 2 && a[5].get(i / 8).map(|b| b >> (i % 8) & 1 == 1).unwrap_or(false) {
                    any_none = true;
                }
            }
            if any_none {
                return Some(Resp::Rej);
            }
            let mut o = rist::encode(&acc).to_vec();
            o.extend_from_slice(&(sp.len() as u32).to_le_bytes());
            o.push(sp.is_empty() as u8);
            Resp::Ok(o)
        }
        "rs.consts" => {
            let z = rist::encode(&Aff::IDENTITY);
            let mut o = vec![];
            for _ in 0..5 {
                o.extend_from_slice(&z);
            }
            Resp::Ok(o)
        }
        _ => return None,
    })
}

/// rs.elligator (V builds): the hook's map output must be the RFC 9496 MAP of the same field value:
/// same group element, same encoding, valid coordinates of a point in the coset.
pub fn oracle_elligator(req: &Req, got: &Resp) -> Result<(), String> {
    let lay = crate::layout::fe_layout();
    let r0 = match lay.operand_value(&req.a[0]) {
        Some(v) => v,
        None => return if *got == Resp::Rej { Ok(()) } else { Err("elligator: malformed operand accepted".into()) },
    };
    let b = match got {
        Resp::Ok(b) if b.len() == 160 => b,
        g => return Err(format!("elligator: {}", g.short())),
    };
    let want = rist::map(&r0);
    if !want.on_curve() {
        return Err("model: MAP output off curve".into());
    }
    let e = rist::encode(&want);
    if b[..32] != e[..] {
        return Err(format!("elligator: encodes as {} but RFC 9496 MAP gives {}", hex(&b[..32]), hex(&e)));
    }
    // the returned representative must be a valid curve point in the same coset
    let f = |i: usize| Fp::from_bytes(&a32(&b[32 + 32 * i..64 + 32 * i]));
    let (x, y, z, t) = (f(0), f(1), f(2), f(3));
    if z.is_zero() {
        return Err("elligator: Z = 0".into());
    }
    let zi = z.inv();
    let p = Aff { x: x.mul(&zi), y: y.mul(&zi) };
    if !p.on_curve() || x.mul(&y) != z.mul(&t) {
        return Err("elligator: returned representative is not a valid extended point".into());
    }
    if !rist::equal(&p, &want) {
        return Err("elligator: returned representative is in another coset".into());
    }
    let _ = Sc::ZERO;
    Ok(())
}
