//! Instrumenting global allocator (C14): while recording is on, the contents of every block
//! passed to dealloc (and of the old block on every realloc) are copied into a static log.
//! Recording is off by default, so the overhead for all other checks is one relaxed atomic load.
use std::alloc::{GlobalAlloc, Layout, System};
use std::sync::atomic::{AtomicBool, AtomicUsize, Ordering};

const LOG_CAP: usize = 48 << 20;
static mut LOG: [u8; LOG_CAP] = [0u8; LOG_CAP];
static CURSOR: AtomicUsize = AtomicUsize::new(0);
static RECORDING: AtomicBool = AtomicBool::new(false);
static OVERFLOW: AtomicBool = AtomicBool::new(false);

pub struct Recorder;

unsafe fn snapshot(ptr: *const u8, len: usize) {
    let need = 8 + len;
    let at = CURSOR.fetch_add(need, Ordering::Relaxed);
    if at + need > LOG_CAP {
        OVERFLOW.store(true, Ordering::Relaxed);
        return;
    }
    let base = std::ptr::addr_of_mut!(LOG) as *mut u8;
    std::ptr::copy_nonoverlapping((len as u64).to_le_bytes().as_ptr(), base.add(at), 8);
    std::ptr::copy_nonoverlapping(ptr, base.add(at + 8), len);
}

unsafe impl GlobalAlloc for Recorder {
    unsafe fn alloc(&self, layout: Layout) -> *mut u8 {
        System.alloc(layout)
    }
    unsafe fn alloc_zeroed(&self, layout: Layout) -> *mut u8 {
        System.alloc_zeroed(layout)
    }
    unsafe fn dealloc(&self, ptr: *mut u8, layout: Layout) {
        if RECORDING.load(Ordering::Relaxed) {
            snapshot(ptr, layout.size());
        }
        System.dealloc(ptr, layout)
    }
    unsafe fn realloc(&self, ptr: *mut u8, layout: Layout, new_size: usize) -> *mut u8 {
        if RECORDING.load(Ordering::Relaxed) {
            // the old block may be released (moved) or truncated: its contents leave our control
            snapshot(ptr, layout.size());
        }
        System.realloc(ptr, layout, new_size)
    }
}

/// Run `f` with recording on; returns f's result and the freed blocks' contents (in order).
pub fn record<T>(f: impl FnOnce() -> T) -> (T, Vec<Vec<u8>>, bool) {
    CURSOR.store(0, Ordering::SeqCst);
    OVERFLOW.store(false, Ordering::SeqCst);
    RECORDING.store(true, Ordering::SeqCst);
    let r = f();
    RECORDING.store(false, Ordering::SeqCst);
    let end = CURSOR.load(Ordering::SeqCst).min(LOG_CAP);
    let mut blocks = vec![];
    let mut at = 0usize;
    unsafe {
        let base = std::ptr::addr_of!(LOG) as *const u8;
        while at + 8 <= end {
            let mut lb = [0u8; 8];
            std::ptr::copy_nonoverlapping(base.add(at), lb.as_mut_ptr(), 8);
            let len = u64::from_le_bytes(lb) as usize;
            if at + 8 + len > end {
                break;
            }
            let mut v = vec![0u8; len];
            std::ptr::copy_nonoverlapping(base.add(at + 8), v.as_mut_ptr(), len);
            blocks.push(v);
            at += 8 + len;
        }
    }
    (r, blocks, OVERFLOW.load(Ordering::SeqCst))
}
