//! C10 driver: runs ONE operation on a secret read from stdin, bracketed by two volatile marker
//! stores, so that an external tracer (valgrind --tool=lackey --trace-mem=yes) can compare the exact
//! instruction / data-address sequence between two secrets. Public API only, no hooks.
//!
//! usage: ctdriver <op>        (secret: one hex line on stdin; public inputs are fixed per op)
use curve25519_dalek::constants::{ED25519_BASEPOINT_POINT, RISTRETTO_BASEPOINT_POINT};
use curve25519_dalek::edwards::EdwardsPoint;
use curve25519_dalek::montgomery::MontgomeryPoint;
use curve25519_dalek::ristretto::RistrettoPoint;
use curve25519_dalek::scalar::Scalar;
use curve25519_dalek::traits::{IsIdentity, MultiscalarMul};
use sha2::{Digest, Sha512};
use std::io::Read;
use subtle::{ConditionallySelectable, ConstantTimeEq};

/// RNG replaying the secret bytes (outside the traced region)
struct Fixed([u8; 32]);
impl rand_core::RngCore for Fixed {
    fn next_u32(&mut self) -> u32 {
        0
    }
    fn next_u64(&mut self) -> u64 {
        0
    }
    fn fill_bytes(&mut self, d: &mut [u8]) {
        for (i, x) in d.iter_mut().enumerate() {
            *x = self.0[i % 32];
        }
    }
    fn try_fill_bytes(&mut self, d: &mut [u8]) -> Result<(), rand_core::Error> {
        self.fill_bytes(d);
        Ok(())
    }
}
impl rand_core::CryptoRng for Fixed {}

/// a table either loaded from DIR/<name>.bin (raw memory written by an earlier native run of the same binary)
/// or built now (and written to DIR if one is given)
#[cfg(feature = "tables")]
fn cached<T>(dir: &Option<String>, name: &str, make: impl FnOnce() -> T) -> &'static T {
    let size = std::mem::size_of::<T>();
    if let Some(d) = dir {
        let path = format!("{}/{}.bin", d, name);
        if let Ok(bytes) = std::fs::read(&path) {
            if bytes.len() == size {
                let mut buf: Vec<u64> = vec![0u64; (size + 7) / 8];
                unsafe { std::ptr::copy_nonoverlapping(bytes.as_ptr(), buf.as_mut_ptr() as *mut u8, size) };
                let leaked: &'static mut [u64] = Box::leak(buf.into_boxed_slice());
                assert!(std::mem::align_of::<T>() <= 8);
                return unsafe { &*(leaked.as_ptr() as *const T) };
            }
        }
        let t: &'static T = Box::leak(Box::new(make()));
        let raw = unsafe { std::slice::from_raw_parts(t as *const T as *const u8, size) };
        let _ = std::fs::create_dir_all(d);
        let tmp = format!("{}.{}", path, std::process::id());
        if std::fs::write(&tmp, raw).is_ok() {
            let _ = std::fs::rename(&tmp, &path);
        }
        return t;
    }
    Box::leak(Box::new(make()))
}

#[no_mangle]
pub static mut CT_MARKER: u64 = 0;

static mut CT_TRAP: bool = false;

#[inline(never)]
fn mark(v: u64) {
    unsafe {
        std::ptr::write_volatile(std::ptr::addr_of_mut!(CT_MARKER), v);
        // under the ptrace single-stepper (CT_TRAP=1) every marker also stops the process
        if std::ptr::read_volatile(std::ptr::addr_of!(CT_TRAP)) {
            libc::raise(libc::SIGUSR1);
        }
    }
}

/// valgrind client request (amd64 magic sequence; a no-op when not running under valgrind)
#[inline(never)]
fn vg_request(req: u64, a1: u64, a2: u64) -> u64 {
    let args: [u64; 6] = [req, a1, a2, 0, 0, 0];
    let mut res: u64 = 0;
    unsafe {
        core::arch::asm!(
            "rol rdi, 3",
            "rol rdi, 13",
            "rol rdi, 61",
            "rol rdi, 51",
            "xchg rbx, rbx",
            inout("rdx") res,
            in("rax") args.as_ptr(),
            inout("rdi") 0u64 => _,
        );
    }
    res
}
const VG_MAKE_MEM_UNDEFINED: u64 = 0x4d43_0001;
const VG_MAKE_MEM_DEFINED: u64 = 0x4d43_0002;

fn unhex(s: &str) -> Vec<u8> {
    let s = s.trim();
    (0..s.len() / 2).map(|i| u8::from_str_radix(&s[2 * i..2 * i + 2], 16).unwrap()).collect()
}
fn hex(b: &[u8]) -> String {
    b.iter().map(|x| format!("{:02x}", x)).collect()
}

pub const OPS: &[&str] = &[
    "sc_add", "sc_sub", "sc_mul", "sc_neg", "sc_invert", "sc_reduce32", "sc_reduce64", "sc_batch_invert", "sc_from_canonical",
    "ed_add", "ed_compress", "ed_cteq", "mul_base", "var_base", "msm3", "mt_mul", "x25519", "x_public", "x_dh",
    "rs_compress", "rs_from_uniform", "ed_keygen", "ed_sign", "ed_sign_ph",
    // second group: equality / predicates on secret points that may carry a torsion component, and the
    // remaining group operations (added after the seeded change C10b, a short-circuit in ct_eq)
    "ed_cteq_t", "ed_is_identity", "ed_is_small_order", "ed_sub", "ed_double", "ed_neg", "ed_to_montgomery", "ed_mul_clamped",
    "mul_base_clamped", "rs_cteq", "rs_add", "rs_mul", "rs_msm2", "mt_cteq", "sc_cteq", "sc_eq",
    // third group: collection forms, conditional selection on a secret choice, decoders of secret (valid)
    // encodings, batch compression, hashing to a scalar, key expansion, conversions
    "sc_sum3", "sc_product3", "ed_sum3", "sc_cond_select", "ed_cond_select", "ed_decompress", "rs_decompress",
    "rs_batch_compress", "sc_from_hash", "ed_expand", "sk_to_scalar_bytes", "mt_to_edwards", "x_reusable_dh",
    // fourth group: fixed-base tables of every radix created from a public point (a table select that scans
    // only part of a large table is a secret-dependent ADDRESS, not a branch: seeded change C10d). In builds
    // without precomputed tables these regions run the variable-base multiplication instead.
    "table_r16", "table_r32", "table_r64", "table_r128", "table_r256", "rs_table",
];

fn main() {
    let op = std::env::args().nth(1).unwrap_or_default();
    if std::env::var("CT_TRAP").is_ok() {
        unsafe { CT_TRAP = true };
    }
    if op == "--list" {
        println!("{}", OPS.join(" "));
        return;
    }
    if op == "--marker" {
        println!("{:x}", std::ptr::addr_of!(CT_MARKER) as usize);
        return;
    }
    let mut input = String::new();
    if op != "--make-tables" {
        std::io::stdin().read_to_string(&mut input).unwrap();
    } else {
        input = "00".into();
    }
    let secret = unhex(&input);
    let mut s32 = [0u8; 32];
    let mut s64 = [0u8; 64];
    for i in 0..64 {
        s64[i] = secret[i % secret.len().max(1)];
    }
    s32.copy_from_slice(&s64[..32]);
    // public inputs (fixed)
    let pub_scalar = Scalar::from_bytes_mod_order([0x5a; 32]);
    let pub_point = EdwardsPoint::mul_base(&Scalar::from(0x1234567u64));
    let pub_point2 = EdwardsPoint::mul_base(&Scalar::from(0x7654321u64));
    let pub_u = MontgomeryPoint([9u8; 32]);
    let msg = b"public message for the constant-time driver";
    // secret-derived values prepared OUTSIDE the traced region
    let sec_scalar = Scalar::from_bytes_mod_order(s32);
    let sec_scalar_nz = if sec_scalar == Scalar::ZERO { Scalar::ONE } else { sec_scalar };
    let sec_scalar_nz2 = if sec_scalar_nz + Scalar::ONE + Scalar::ONE == Scalar::ZERO { Scalar::ONE } else { sec_scalar_nz + Scalar::ONE + Scalar::ONE };
    let sec_point = EdwardsPoint::mul_base(&sec_scalar);
    let sec_rpoint = RistrettoPoint::mul_base(&sec_scalar);
    // a secret point outside the prime-order subgroup: byte 32 of the secret picks the torsion component
    let sec_point_t = sec_point + curve25519_dalek::constants::EIGHT_TORSION[(s64[32] & 7) as usize];
    let pub_rpoint = RistrettoPoint::mul_base(&Scalar::from(0x1234567u64));
    let sec_u = sec_point.to_montgomery();
    let sec_enc = sec_point_t.compress();
    let sec_renc = sec_rpoint.compress();
    let reusable = x25519_dalek::ReusableSecret::random_from_rng(Fixed(s32));
    // Tables of a public point. Building them costs ~10^8 instructions (thousands of field inversions), far
    // too slow under the tracer, so `ctdriver --make-tables DIR` (run natively, once per build) stores their
    // raw memory and traced runs load it (CT_TABLE_DIR); the types are plain arrays of limbs.
    #[cfg(feature = "tables")]
    let tables = {
        use curve25519_dalek::edwards::*;
        use curve25519_dalek::traits::BasepointTable;
        let dir = std::env::var("CT_TABLE_DIR").ok();
        (
            cached(&dir, "r16", || EdwardsBasepointTableRadix16::create(&pub_point)),
            cached(&dir, "r32", || EdwardsBasepointTableRadix32::create(&pub_point)),
            cached(&dir, "r64", || EdwardsBasepointTableRadix64::create(&pub_point)),
            cached(&dir, "r128", || EdwardsBasepointTableRadix128::create(&pub_point)),
            cached(&dir, "r256", || EdwardsBasepointTableRadix256::create(&pub_point)),
            cached(&dir, "rs", || curve25519_dalek::ristretto::RistrettoBasepointTable::create(&pub_rpoint)),
        )
    };
    if op == "--make-tables" {
        return; // the tables were written by `cached` above
    }
    let pub_u2 = pub_point.to_montgomery();
    let eph = x25519_dalek::StaticSecret::from(s32);
    let sk = ed25519_dalek::SigningKey::from_bytes(&s32);
    // taint mode (CT_TAINT, under valgrind memcheck): the storage of every secret-holding value is marked
    // UNDEFINED at the start of a region and DEFINED again (with the output) at its end; memcheck then reports
    // every conditional jump and every address that depends on it - also branches that the concrete secret
    // does not take (a branch guarded by a 2^-40 condition is reported although it never fires)
    let taint_on = std::env::var("CT_TAINT").is_ok();
    macro_rules! region_of {
        ($v:expr) => {
            (std::ptr::addr_of!($v) as usize, std::mem::size_of_val(&$v))
        };
    }
    let secret_storage: Vec<(usize, usize)> = vec![
        region_of!(s32), region_of!(s64), region_of!(sec_scalar), region_of!(sec_scalar_nz), region_of!(sec_scalar_nz2), region_of!(sec_point), region_of!(sec_point_t),
        region_of!(sec_rpoint), region_of!(sec_u), region_of!(sec_enc), region_of!(sec_renc), region_of!(eph), region_of!(sk), region_of!(reusable),
    ];
    let set_taint = |req: u64| {
        if taint_on {
            for (a, n) in secret_storage.iter() {
                vg_request(req, *a as u64, *n as u64);
            }
        }
    };
    let run = |op: &str| -> Vec<u8> {
        let out: Vec<u8>;
        mark(0x1111_1111_1111_1111);
        set_taint(VG_MAKE_MEM_UNDEFINED);
    match op {
            "sc_add" => out = (sec_scalar + pub_scalar).to_bytes().to_vec(),
            "sc_sub" => out = (pub_scalar - sec_scalar).to_bytes().to_vec(),
            "sc_mul" => out = (sec_scalar * pub_scalar).to_bytes().to_vec(),
            "sc_neg" => out = (-sec_scalar).to_bytes().to_vec(),
            "sc_invert" => out = sec_scalar_nz.invert().to_bytes().to_vec(),
            "sc_reduce32" => out = Scalar::from_bytes_mod_order(s32).to_bytes().to_vec(),
            "sc_reduce64" => out = Scalar::from_bytes_mod_order_wide(&s64).to_bytes().to_vec(),
            "sc_batch_invert" => {
                let mut v = [sec_scalar_nz, sec_scalar_nz2, pub_scalar];
                let r = Scalar::batch_invert(&mut v);
                out = r.to_bytes().to_vec();
            }
            "sc_from_canonical" => {
                // the candidate is secret; only validity (a public fact once branched on by the caller) may leak
                let c = Scalar::from_canonical_bytes(sec_scalar.to_bytes());
                out = vec![c.is_some().unwrap_u8()];
            }
            "ed_add" => out = (sec_point + pub_point).compress().to_bytes().to_vec(),
            "ed_compress" => out = sec_point.compress().to_bytes().to_vec(),
            "ed_cteq" => out = vec![sec_point.ct_eq(&pub_point).unwrap_u8()],
            "mul_base" => out = EdwardsPoint::mul_base(&sec_scalar).compress().to_bytes().to_vec(),
            "var_base" => out = (pub_point * sec_scalar).compress().to_bytes().to_vec(),
            "msm3" => {
                let r = EdwardsPoint::multiscalar_mul([sec_scalar, sec_scalar + Scalar::ONE, pub_scalar].iter(), [pub_point, pub_point2, ED25519_BASEPOINT_POINT].iter());
                out = r.compress().to_bytes().to_vec();
            }
            "mt_mul" => out = (pub_u * sec_scalar).to_bytes().to_vec(),
            "x25519" => out = x25519_dalek::x25519(s32, [9u8; 32]).to_vec(),
            "x_public" => out = x25519_dalek::PublicKey::from(&eph).to_bytes().to_vec(),
            "x_dh" => out = eph.diffie_hellman(&x25519_dalek::PublicKey::from([7u8; 32])).to_bytes().to_vec(),
            "rs_compress" => out = sec_rpoint.compress().to_bytes().to_vec(),
            "rs_from_uniform" => out = RistrettoPoint::from_uniform_bytes(&s64).compress().to_bytes().to_vec(),
            "ed_keygen" => out = ed25519_dalek::SigningKey::from_bytes(&s32).verifying_key().to_bytes().to_vec(),
            "ed_sign" => {
                use ed25519_dalek::Signer;
                out = sk.sign(msg).to_bytes().to_vec();
            }
            "ed_sign_ph" => out = sk.sign_prehashed(Sha512::new().chain_update(msg), Some(b"ctx")).unwrap().to_bytes().to_vec(),
            "ed_cteq_t" => out = vec![sec_point_t.ct_eq(&pub_point).unwrap_u8()],
            "ed_is_identity" => out = vec![sec_point_t.is_identity() as u8],
            "ed_is_small_order" => out = vec![sec_point_t.is_small_order() as u8],
            "ed_sub" => out = (pub_point - sec_point_t).compress().to_bytes().to_vec(),
            "ed_double" => out = (sec_point_t + sec_point_t).compress().to_bytes().to_vec(),
            "ed_neg" => out = (-sec_point_t).compress().to_bytes().to_vec(),
            "ed_to_montgomery" => out = sec_point_t.to_montgomery().to_bytes().to_vec(),
            "ed_mul_clamped" => out = pub_point.mul_clamped(s32).compress().to_bytes().to_vec(),
            "mul_base_clamped" => out = EdwardsPoint::mul_base_clamped(s32).compress().to_bytes().to_vec(),
            "rs_cteq" => out = vec![sec_rpoint.ct_eq(&pub_rpoint).unwrap_u8()],
            "rs_add" => out = (sec_rpoint + pub_rpoint).compress().to_bytes().to_vec(),
            "rs_mul" => out = (pub_rpoint * sec_scalar).compress().to_bytes().to_vec(),
            "rs_msm2" => out = RistrettoPoint::multiscalar_mul([sec_scalar, pub_scalar].iter(), [pub_rpoint, RISTRETTO_BASEPOINT_POINT].iter()).compress().to_bytes().to_vec(),
            "mt_cteq" => out = vec![sec_u.ct_eq(&pub_u2).unwrap_u8()],
            "sc_cteq" => out = vec![sec_scalar.ct_eq(&pub_scalar).unwrap_u8()],
            "sc_eq" => out = vec![(sec_scalar == pub_scalar) as u8],
            "sc_sum3" => out = [sec_scalar, pub_scalar, sec_scalar_nz].iter().sum::<Scalar>().to_bytes().to_vec(),
            "sc_product3" => out = [sec_scalar, pub_scalar, sec_scalar_nz].iter().product::<Scalar>().to_bytes().to_vec(),
            "ed_sum3" => out = [sec_point_t, pub_point, sec_point].iter().sum::<EdwardsPoint>().compress().to_bytes().to_vec(),
            "sc_cond_select" => out = Scalar::conditional_select(&pub_scalar, &sec_scalar, subtle::Choice::from(s64[33] & 1)).to_bytes().to_vec(),
            "ed_cond_select" => out = EdwardsPoint::conditional_select(&pub_point, &sec_point_t, subtle::Choice::from(s64[33] & 1)).compress().to_bytes().to_vec(),
            "ed_decompress" => out = sec_enc.decompress().map(|p| p.compress().to_bytes().to_vec()).unwrap_or_default(),
            "rs_decompress" => out = sec_renc.decompress().map(|p| p.compress().to_bytes().to_vec()).unwrap_or_default(),
            "rs_batch_compress" => out = RistrettoPoint::double_and_compress_batch(&[sec_rpoint, pub_rpoint, sec_rpoint + pub_rpoint]).iter().flat_map(|c| c.to_bytes().to_vec()).collect(),
            "sc_from_hash" => out = Scalar::hash_from_bytes::<Sha512>(&s64).to_bytes().to_vec(),
            "ed_expand" => {
                let e = ed25519_dalek::hazmat::ExpandedSecretKey::from(&s32);
                out = e.scalar.to_bytes().to_vec();
            }
            "sk_to_scalar_bytes" => out = sk.to_scalar_bytes().to_vec(),
            "mt_to_edwards" => out = sec_u.to_edwards(s64[33] & 1).map(|p| p.compress().to_bytes().to_vec()).unwrap_or_default(),
            "x_reusable_dh" => out = reusable.diffie_hellman(&x25519_dalek::PublicKey::from([7u8; 32])).to_bytes().to_vec(),
            #[cfg(feature = "tables")]
            "table_r16" => out = (tables.0 * &sec_scalar).compress().to_bytes().to_vec(),
            #[cfg(feature = "tables")]
            "table_r32" => out = (tables.1 * &sec_scalar).compress().to_bytes().to_vec(),
            #[cfg(feature = "tables")]
            "table_r64" => out = (tables.2 * &sec_scalar).compress().to_bytes().to_vec(),
            #[cfg(feature = "tables")]
            "table_r128" => out = (tables.3 * &sec_scalar).compress().to_bytes().to_vec(),
            #[cfg(feature = "tables")]
            "table_r256" => out = (tables.4 * &sec_scalar).compress().to_bytes().to_vec(),
            #[cfg(feature = "tables")]
            "rs_table" => out = (tables.5 * &sec_scalar).compress().to_bytes().to_vec(),
            #[cfg(not(feature = "tables"))]
            "table_r16" | "table_r32" | "table_r64" | "table_r128" | "table_r256" | "rs_table" => out = (pub_point * sec_scalar).compress().to_bytes().to_vec(),
            // deliberately variable-time control: the tracer must see a difference here
            "control_vartime" => out = EdwardsPoint::vartime_double_scalar_mul_basepoint(&sec_scalar, &pub_point, &pub_scalar).compress().to_bytes().to_vec(),
            _ => {
                eprintln!("unknown op");
                std::process::exit(2);
            }
        }
        if taint_on {
            vg_request(VG_MAKE_MEM_DEFINED, out.as_ptr() as u64, out.len() as u64);
        }
        set_taint(VG_MAKE_MEM_DEFINED);
    mark(0x2222_2222_2222_2222);
        out
    };
    if op == "all" {
        // every operation in one process (one tracer start-up); the variable-time control comes last
        for o in OPS.iter().chain(["control_vartime"].iter()) {
            let out = run(o);
            println!("{} {}", o, hex(&out));
        }
    } else {
        let out = run(&op);
        println!("{}", hex(&out));
    }
    let _ = RISTRETTO_BASEPOINT_POINT;
}
