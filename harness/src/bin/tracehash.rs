//! Reads a valgrind-lackey trace on stdin, splits it at the marker stores (" S <addr>,8") and prints,
//! for every region between an odd and an even marker, two independent 64-bit hashes of the lines,
//! the number of trace lines and the number of instruction lines.
//! usage: tracehash <marker "addr,8"> [--dump K FILE]   (--dump writes region K's lines to FILE)
use std::io::{BufRead, Write};

fn main() {
    let args: Vec<String> = std::env::args().collect();
    let marker = args.get(1).expect("marker").clone();
    let (dump_k, mut dump_f) = if args.get(2).map(|s| s == "--dump").unwrap_or(false) {
        (args[3].parse::<usize>().unwrap(), Some(std::io::BufWriter::new(std::fs::File::create(&args[4]).unwrap())))
    } else {
        (usize::MAX, None)
    };
    let stdin = std::io::stdin();
    let mut markers = 0usize;
    let (mut h1, mut h2, mut n, mut ni) = (0xcbf29ce484222325u64, 0x9e3779b97f4a7c15u64, 0u64, 0u64);
    let out = std::io::stdout();
    let mut out = out.lock();
    for line in stdin.lock().lines() {
        let line = match line {
            Ok(l) => l,
            Err(_) => continue,
        };
        let t = line.trim_start();
        if let Some(rest) = t.strip_prefix("S ") {
            if rest == marker {
                markers += 1;
                if markers % 2 == 0 {
                    writeln!(out, "region {} {:016x}{:016x} {} {}", markers / 2 - 1, h1, h2, n, ni).unwrap();
                }
                h1 = 0xcbf29ce484222325;
                h2 = 0x9e3779b97f4a7c15;
                n = 0;
                ni = 0;
                continue;
            }
        }
        if markers % 2 == 1 {
            for b in t.bytes() {
                h1 = (h1 ^ b as u64).wrapping_mul(0x100000001b3);
                h2 = (h2.rotate_left(5) ^ b as u64).wrapping_mul(0xff51afd7ed558ccd);
            }
            h1 = (h1 ^ 0x0a).wrapping_mul(0x100000001b3);
            n += 1;
            if t.starts_with('I') {
                ni += 1;
            }
            if markers / 2 == dump_k {
                if let Some(f) = dump_f.as_mut() {
                    writeln!(f, "{}", t).unwrap();
                }
            }
        }
    }
    writeln!(out, "markers {}", markers).unwrap();
}
