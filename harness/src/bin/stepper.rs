//! ptrace single-stepper (C10, for code valgrind cannot execute: AVX-512 IFMA). Runs
//! `ctdriver <op>` natively with ASLR disabled and CT_TRAP=1 (every marker raises SIGUSR1), lets it
//! run freely outside the marked regions and single-steps inside them, hashing the sequence of
//! instruction pointers. Only instruction addresses are observed (no data addresses).
//! usage: stepper <ctdriver> <op>   (secret hex on stdin)   -> lines "region k <hash> <steps>"
use std::ffi::CString;
use std::io::Read;

fn main() {
    let args: Vec<String> = std::env::args().collect();
    let (bin, op) = (args[1].clone(), args[2].clone());
    let mut secret = String::new();
    std::io::stdin().read_to_string(&mut secret).unwrap();
    unsafe {
        let mut fds = [0i32; 2];
        assert_eq!(libc::pipe(fds.as_mut_ptr()), 0);
        let pid = libc::fork();
        assert!(pid >= 0);
        if pid == 0 {
            // child
            libc::close(fds[1]);
            libc::dup2(fds[0], 0);
            let devnull = libc::open(b"/dev/null\0".as_ptr() as *const libc::c_char, libc::O_WRONLY);
            libc::dup2(devnull, 1);
            libc::personality(libc::ADDR_NO_RANDOMIZE as libc::c_ulong);
            libc::setenv(b"CT_TRAP\0".as_ptr() as *const libc::c_char, b"1\0".as_ptr() as *const libc::c_char, 1);
            libc::ptrace(libc::PTRACE_TRACEME, 0, 0, 0);
            let b = CString::new(bin.clone()).unwrap();
            let o = CString::new(op.clone()).unwrap();
            let argv = [b.as_ptr(), o.as_ptr(), std::ptr::null()];
            libc::execv(b.as_ptr(), argv.as_ptr());
            libc::_exit(127);
        }
        libc::close(fds[0]);
        let sb = secret.as_bytes();
        libc::write(fds[1], sb.as_ptr() as *const libc::c_void, sb.len());
        libc::close(fds[1]);
        let mut status = 0i32;
        // first stop: exec
        libc::waitpid(pid, &mut status, 0);
        let mut stepping = false;
        let mut region = 0usize;
        let (mut h1, mut h2, mut n) = (0xcbf29ce484222325u64, 0x9e3779b97f4a7c15u64, 0u64);
        let mut deliver: libc::c_int = 0;
        loop {
            let req = if stepping { libc::PTRACE_SINGLESTEP } else { libc::PTRACE_CONT };
            if libc::ptrace(req, pid, 0, deliver as libc::c_long) != 0 {
                break;
            }
            deliver = 0;
            libc::waitpid(pid, &mut status, 0);
            if libc::WIFEXITED(status) || libc::WIFSIGNALED(status) {
                break;
            }
            if !libc::WIFSTOPPED(status) {
                continue;
            }
            let sig = libc::WSTOPSIG(status);
            if sig == libc::SIGUSR1 {
                // marker: toggle (the signal is swallowed)
                if stepping {
                    println!("region {} {:016x}{:016x} {}", region, h1, h2, n);
                    region += 1;
                    stepping = false;
                } else {
                    stepping = true;
                    h1 = 0xcbf29ce484222325;
                    h2 = 0x9e3779b97f4a7c15;
                    n = 0;
                }
                continue;
            }
            if sig == libc::SIGTRAP {
                if stepping {
                    let mut regs: libc::user_regs_struct = std::mem::zeroed();
                    libc::ptrace(libc::PTRACE_GETREGS, pid, 0, &mut regs as *mut _ as *mut libc::c_void);
                    let rip = regs.rip;
                    for b in rip.to_le_bytes() {
                        h1 = (h1 ^ b as u64).wrapping_mul(0x100000001b3);
                        h2 = (h2.rotate_left(5) ^ b as u64).wrapping_mul(0xff51afd7ed558ccd);
                    }
                    n += 1;
                }
                continue;
            }
            // any other signal: deliver it
            deliver = sig;
        }
        println!("regions {}", region);
    }
}
