//! GF(p), p = 2^255 - 19, as plain integers in [0, p). No limbs, no laziness.
use super::big::{U256, U512};

pub fn p() -> U256 {
    U256([0xffff_ffff_ffff_ffed, u64::MAX, u64::MAX, 0x7fff_ffff_ffff_ffff])
}

#[derive(Clone, Copy, PartialEq, Eq, Hash, Debug)]
pub struct Fp(pub U256); // invariant: < p

impl Fp {
    pub const ZERO: Fp = Fp(U256::ZERO);
    pub const ONE: Fp = Fp(U256::ONE);
    pub fn from_u64(x: u64) -> Fp {
        Fp(U256::from_u64(x))
    }
    /// any 256-bit integer, reduced mod p
    pub fn from_u256(x: &U256) -> Fp {
        let mut v = *x;
        let pp = p();
        while v >= pp {
            v = v.wrapping_sub(&pp);
        }
        Fp(v)
    }
    /// dalek / RFC 7748 decoding rule: bit 255 ignored, value reduced mod p.
    pub fn from_bytes(b: &[u8; 32]) -> Fp {
        let mut c = *b;
        c[31] &= 0x7f;
        Fp::from_u256(&U256::from_le(&c))
    }
    pub fn from_dec(s: &str) -> Fp {
        Fp::from_u256(&U256::from_dec(s))
    }
    pub fn to_bytes(&self) -> [u8; 32] {
        self.0.to_le()
    }
    pub fn is_zero(&self) -> bool {
        self.0.is_zero()
    }
    /// "negative" in the Ed25519 sense: low bit of the canonical representative.
    pub fn is_neg(&self) -> bool {
        self.0.bit(0)
    }
    pub fn add(&self, o: &Fp) -> Fp {
        // both < p < 2^255, the sum fits 256 bits
        let (s, c) = self.0.add_c(&o.0);
        debug_assert!(!c);
        Fp::from_u256(&s)
    }
    pub fn neg(&self) -> Fp {
        if self.is_zero() {
            *self
        } else {
            Fp(p().wrapping_sub(&self.0))
        }
    }
    pub fn sub(&self, o: &Fp) -> Fp {
        self.add(&o.neg())
    }
    pub fn reduce512(w: &U512) -> Fp {
        // 2^256 = 38 (mod p): fold hi*38 + lo, twice, then final subtractions.
        let t = w.hi().mul_wide(&U256::from_u64(38)); // < 2^262
        let (s, c) = t.add_c(&w.lo().widen());
        debug_assert!(!c);
        let t2 = s.hi().mul_wide(&U256::from_u64(38)); // hi < 2^7
        let (s2, c2) = t2.add_c(&s.lo().widen());
        debug_assert!(!c2);
        // s2 < 2^256 + 38*2^7
        let mut v = s2.lo();
        if !s2.hi().is_zero() {
            // add 38 for the single overflow bit
            debug_assert!(s2.hi() == U256::ONE);
            let (x, c3) = v.add_c(&U256::from_u64(38));
            debug_assert!(!c3);
            v = x;
        }
        Fp::from_u256(&v)
    }
    pub fn mul(&self, o: &Fp) -> Fp {
        Fp::reduce512(&self.0.mul_wide(&o.0))
    }
    pub fn sq(&self) -> Fp {
        self.mul(self)
    }
    pub fn dbl(&self) -> Fp {
        self.add(self)
    }
    pub fn pow(&self, e: &U256) -> Fp {
        let mut r = Fp::ONE;
        for i in (0..e.bits()).rev() {
            r = r.sq();
            if e.bit(i) {
                r = r.mul(self);
            }
        }
        r
    }
    /// Fermat inverse; 0 maps to 0.
    pub fn inv(&self) -> Fp {
        self.pow(&p().wrapping_sub(&U256::from_u64(2)))
    }
    pub fn div(&self, o: &Fp) -> Fp {
        self.mul(&o.inv())
    }
    /// Legendre symbol: 0, 1, or -1 (returned as 0 / 1 / 2).
    pub fn legendre(&self) -> u8 {
        let e = p().wrapping_sub(&U256::ONE).shr(1);
        let r = self.pow(&e);
        if r.is_zero() {
            0
        } else if r == Fp::ONE {
            1
        } else {
            debug_assert!(r == Fp::ONE.neg());
            2
        }
    }
    pub fn is_square(&self) -> bool {
        self.legendre() != 2
    }
    /// sqrt(-1): 2^((p-1)/4)
    pub fn sqrt_m1() -> Fp {
        static I: std::sync::OnceLock<Fp> = std::sync::OnceLock::new();
        *I.get_or_init(|| Fp::from_u64(2).pow(&p().wrapping_sub(&U256::ONE).shr(2)))
    }
    /// Some root (either sign) if self is a square. p = 5 mod 8.
    pub fn sqrt(&self) -> Option<Fp> {
        let e = p().wrapping_add(&U256::from_u64(3)).shr(3);
        let c = self.pow(&e);
        if c.sq() == *self {
            return Some(c);
        }
        let c2 = c.mul(&Fp::sqrt_m1());
        if c2.sq() == *self {
            return Some(c2);
        }
        None
    }
    /// the non-negative (even) square root
    pub fn sqrt_even(&self) -> Option<Fp> {
        self.sqrt().map(|r| if r.is_neg() { r.neg() } else { r })
    }
    pub fn abs(&self) -> Fp {
        if self.is_neg() {
            self.neg()
        } else {
            *self
        }
    }
}

/// The documented four-case contract of dalek's `sqrt_ratio_i(u, v)`:
/// (1, +sqrt(u/v)) if v != 0 and u/v is square; (1, 0) if u == 0;
/// (0, 0) if v == 0 and u != 0; (0, +sqrt(i*u/v)) if u/v is non-square.
pub fn sqrt_ratio_i(u: &Fp, v: &Fp) -> (bool, Fp) {
    if u.is_zero() {
        return (true, Fp::ZERO);
    }
    if v.is_zero() {
        return (false, Fp::ZERO);
    }
    let q = u.div(v);
    match q.sqrt_even() {
        Some(r) => (true, r),
        None => {
            let r = Fp::sqrt_m1().mul(&q).sqrt_even().expect("i*q must be square when q is not");
            (false, r)
        }
    }
}

pub fn d() -> Fp {
    // d = -121665/121666
    static D: std::sync::OnceLock<Fp> = std::sync::OnceLock::new();
    *D.get_or_init(|| Fp::from_u64(121665).neg().div(&Fp::from_u64(121666)))
}
