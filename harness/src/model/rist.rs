//! ristretto255 as specified in RFC 9496 (decode / encode / equality / element derivation),
//! transcribed from the RFC text; plus the group-theoretic definition of equality (P1 - P2 in E[4]).
use super::big::U256;
use super::ed::Aff;
use super::fp::{d, p, Fp};

pub fn sqrt_m1() -> Fp {
    static C: std::sync::OnceLock<Fp> = std::sync::OnceLock::new();
    *C.get_or_init(|| Fp::from_dec("19681161376707505956807079304988542015446066515923890162744021073123829784752"))
}
pub fn sqrt_ad_minus_one() -> Fp {
    static C: std::sync::OnceLock<Fp> = std::sync::OnceLock::new();
    *C.get_or_init(|| Fp::from_dec("25063068953384623474111414158702152701244531502492656460079210482610430750235"))
}
pub fn invsqrt_a_minus_d() -> Fp {
    static C: std::sync::OnceLock<Fp> = std::sync::OnceLock::new();
    *C.get_or_init(|| Fp::from_dec("54469307008909316920995813868745141605393597292927456921205312896311721017578"))
}
pub fn one_minus_d_sq() -> Fp {
    Fp::ONE.sub(&d().sq())
}
pub fn d_minus_one_sq() -> Fp {
    d().sub(&Fp::ONE).sq()
}

/// SQRT_RATIO_M1 of RFC 9496 section 4.2
pub fn sqrt_ratio_m1(u: &Fp, v: &Fp) -> (bool, Fp) {
    let v3 = v.sq().mul(v);
    let v7 = v3.sq().mul(v);
    let e = p().wrapping_sub(&U256::from_u64(5)).shr(3);
    let mut r = u.mul(&v3).mul(&u.mul(&v7).pow(&e));
    let check = v.mul(&r.sq());
    let correct_sign_sqrt = check == *u;
    let flipped_sign_sqrt = check == u.neg();
    let flipped_sign_sqrt_i = check == u.neg().mul(&sqrt_m1());
    let r_prime = sqrt_m1().mul(&r);
    if flipped_sign_sqrt | flipped_sign_sqrt_i {
        r = r_prime;
    }
    r = r.abs();
    (correct_sign_sqrt | flipped_sign_sqrt, r)
}

/// Extended coordinates as used by the RFC's formulas.
#[derive(Clone, Copy, Debug)]
pub struct Ext {
    pub x: Fp,
    pub y: Fp,
    pub z: Fp,
    pub t: Fp,
}

impl Ext {
    pub fn from_aff(a: &Aff) -> Ext {
        Ext { x: a.x, y: a.y, z: Fp::ONE, t: a.x.mul(&a.y) }
    }
    pub fn to_aff(&self) -> Aff {
        let zi = self.z.inv();
        Aff { x: self.x.mul(&zi), y: self.y.mul(&zi) }
    }
}

/// RFC 9496 4.3.1 Decode
pub fn decode(b: &[u8; 32]) -> Option<Aff> {
    let sv = U256::from_le(b);
    if sv >= p() {
        return None; // non-canonical (covers bit 255 set)
    }
    let s = Fp(sv);
    if s.is_neg() {
        return None;
    }
    let ss = s.sq();
    let u1 = Fp::ONE.sub(&ss);
    let u2 = Fp::ONE.add(&ss);
    let u2_sqr = u2.sq();
    let v = d().mul(&u1.sq()).neg().sub(&u2_sqr);
    let (was_square, invsqrt) = sqrt_ratio_m1(&Fp::ONE, &v.mul(&u2_sqr));
    let den_x = invsqrt.mul(&u2);
    let den_y = invsqrt.mul(&den_x).mul(&v);
    let x = s.dbl().mul(&den_x).abs();
    let y = u1.mul(&den_y);
    let t = x.mul(&y);
    if !was_square || t.is_neg() || y.is_zero() {
        return None;
    }
    Some(Aff { x, y })
}

/// RFC 9496 4.3.2 Encode
pub fn encode(pt: &Aff) -> [u8; 32] {
    let e = Ext::from_aff(pt);
    encode_ext(&e)
}
pub fn encode_ext(e: &Ext) -> [u8; 32] {
    let (x0, y0, z0, t0) = (e.x, e.y, e.z, e.t);
    let u1 = z0.add(&y0).mul(&z0.sub(&y0));
    let u2 = x0.mul(&y0);
    let (_, invsqrt) = sqrt_ratio_m1(&Fp::ONE, &u1.mul(&u2.sq()));
    let den1 = invsqrt.mul(&u1);
    let den2 = invsqrt.mul(&u2);
    let z_inv = den1.mul(&den2).mul(&t0);
    let ix0 = x0.mul(&sqrt_m1());
    let iy0 = y0.mul(&sqrt_m1());
    let enchanted_denominator = den1.mul(&invsqrt_a_minus_d());
    let rotate = t0.mul(&z_inv).is_neg();
    let x = if rotate { iy0 } else { x0 };
    let mut y = if rotate { ix0 } else { y0 };
    let z = z0;
    let den_inv = if rotate { enchanted_denominator } else { den2 };
    if x.mul(&z_inv).is_neg() {
        y = y.neg();
    }
    den_inv.mul(&z.sub(&y)).abs().to_bytes()
}

/// Group-theoretic equality: same coset of E[4].
pub fn equal(a: &Aff, b: &Aff) -> bool {
    let diff = a.sub(b);
    diff.dbl().dbl().is_identity()
}

/// RFC 9496 4.3.4 MAP
pub fn map(t: &Fp) -> Aff {
    let dd = d();
    let r = sqrt_m1().mul(&t.sq());
    let u = r.add(&Fp::ONE).mul(&one_minus_d_sq());
    let v = Fp::ONE.neg().sub(&r.mul(&dd)).mul(&r.add(&dd));
    let (was_square, mut s) = sqrt_ratio_m1(&u, &v);
    let s_prime = s.mul(t).abs().neg();
    if !was_square {
        s = s_prime;
    }
    let c = if was_square { Fp::ONE.neg() } else { r };
    let n = c.mul(&r.sub(&Fp::ONE)).mul(&d_minus_one_sq()).sub(&v);
    let w0 = s.dbl().mul(&v);
    let w1 = n.mul(&sqrt_ad_minus_one());
    let w2 = Fp::ONE.sub(&s.sq());
    let w3 = Fp::ONE.add(&s.sq());
    Ext { x: w0.mul(&w3), y: w2.mul(&w1), z: w1.mul(&w3), t: w0.mul(&w2) }.to_aff()
}

/// RFC 9496 4.3.4 element derivation from 64 uniform bytes
pub fn from_uniform_bytes(b: &[u8; 64]) -> Aff {
    let t1 = Fp::from_bytes(b[..32].try_into().unwrap());
    let t2 = Fp::from_bytes(b[32..].try_into().unwrap());
    map(&t1).add(&map(&t2))
}
