//! Fixed-width unsigned integers, schoolbook, no cleverness. Little-endian u64 limbs.
use std::cmp::Ordering;

#[derive(Clone, Copy, PartialEq, Eq, Hash, Debug, Default)]
pub struct U256(pub [u64; 4]);
#[derive(Clone, Copy, PartialEq, Eq, Hash, Debug, Default)]
pub struct U512(pub [u64; 8]);

impl U256 {
    pub const ZERO: U256 = U256([0; 4]);
    pub const ONE: U256 = U256([1, 0, 0, 0]);
    pub const MAX: U256 = U256([u64::MAX; 4]);
    pub const fn from_u64(x: u64) -> U256 {
        U256([x, 0, 0, 0])
    }
    pub fn from_u128(x: u128) -> U256 {
        U256([x as u64, (x >> 64) as u64, 0, 0])
    }
    pub fn from_le(b: &[u8; 32]) -> U256 {
        let mut l = [0u64; 4];
        for i in 0..4 {
            l[i] = u64::from_le_bytes(b[8 * i..8 * i + 8].try_into().unwrap());
        }
        U256(l)
    }
    /// from up to 32 little-endian bytes
    pub fn from_le_slice(b: &[u8]) -> U256 {
        assert!(b.len() <= 32);
        let mut a = [0u8; 32];
        a[..b.len()].copy_from_slice(b);
        U256::from_le(&a)
    }
    pub fn to_le(&self) -> [u8; 32] {
        let mut b = [0u8; 32];
        for i in 0..4 {
            b[8 * i..8 * i + 8].copy_from_slice(&self.0[i].to_le_bytes());
        }
        b
    }
    pub fn from_hex_be(s: &str) -> U256 {
        let s = s.trim_start_matches("0x");
        assert!(s.len() <= 64);
        let mut v = U256::ZERO;
        for c in s.chars() {
            let d = c.to_digit(16).expect("hex") as u64;
            v = v.shl(4);
            v.0[0] |= d;
        }
        v
    }
    pub fn from_dec(s: &str) -> U256 {
        let mut v = U256::ZERO;
        for c in s.chars() {
            let d = c.to_digit(10).expect("dec") as u64;
            let w = v.mul_wide(&U256::from_u64(10));
            assert!(w.hi() == U256::ZERO);
            let (s, c) = w.lo().add_c(&U256::from_u64(d));
            assert!(!c);
            v = s;
        }
        v
    }
    pub fn is_zero(&self) -> bool {
        self.0 == [0; 4]
    }
    pub fn bit(&self, i: usize) -> bool {
        i < 256 && (self.0[i / 64] >> (i % 64)) & 1 == 1
    }
    pub fn bits(&self) -> usize {
        for i in (0..4).rev() {
            if self.0[i] != 0 {
                return 64 * i + 64 - self.0[i].leading_zeros() as usize;
            }
        }
        0
    }
    pub fn add_c(&self, o: &U256) -> (U256, bool) {
        let mut r = [0u64; 4];
        let mut c = 0u128;
        for i in 0..4 {
            let t = self.0[i] as u128 + o.0[i] as u128 + c;
            r[i] = t as u64;
            c = t >> 64;
        }
        (U256(r), c != 0)
    }
    pub fn sub_b(&self, o: &U256) -> (U256, bool) {
        let mut r = [0u64; 4];
        let mut b = 0i128;
        for i in 0..4 {
            let t = self.0[i] as i128 - o.0[i] as i128 - b;
            if t < 0 {
                r[i] = (t + (1i128 << 64)) as u64;
                b = 1;
            } else {
                r[i] = t as u64;
                b = 0;
            }
        }
        (U256(r), b != 0)
    }
    pub fn wrapping_add(&self, o: &U256) -> U256 {
        self.add_c(o).0
    }
    pub fn wrapping_sub(&self, o: &U256) -> U256 {
        self.sub_b(o).0
    }
    pub fn shl(&self, n: usize) -> U256 {
        if n >= 256 {
            return U256::ZERO;
        }
        let (w, b) = (n / 64, n % 64);
        let mut r = [0u64; 4];
        for i in (w..4).rev() {
            r[i] = self.0[i - w] << b;
            if b > 0 && i > w {
                r[i] |= self.0[i - w - 1] >> (64 - b);
            }
        }
        U256(r)
    }
    pub fn shr(&self, n: usize) -> U256 {
        if n >= 256 {
            return U256::ZERO;
        }
        let (w, b) = (n / 64, n % 64);
        let mut r = [0u64; 4];
        for i in 0..4 - w {
            r[i] = self.0[i + w] >> b;
            if b > 0 && i + w + 1 < 4 {
                r[i] |= self.0[i + w + 1] << (64 - b);
            }
        }
        U256(r)
    }
    pub fn mul_wide(&self, o: &U256) -> U512 {
        let mut r = [0u64; 8];
        for i in 0..4 {
            let mut c = 0u128;
            for j in 0..4 {
                let t = (self.0[i] as u128) * (o.0[j] as u128) + r[i + j] as u128 + c;
                r[i + j] = t as u64;
                c = t >> 64;
            }
            r[i + 4] = c as u64;
        }
        U512(r)
    }
    pub fn widen(&self) -> U512 {
        let mut r = [0u64; 8];
        r[..4].copy_from_slice(&self.0);
        U512(r)
    }
    /// self mod m (m != 0), by shift-subtract.
    pub fn rem(&self, m: &U256) -> U256 {
        self.widen().rem(m)
    }
    pub fn low_u64(&self) -> u64 {
        self.0[0]
    }
    pub fn abs_diff(&self, o: &U256) -> U256 {
        if self >= o {
            self.wrapping_sub(o)
        } else {
            o.wrapping_sub(self)
        }
    }
}

impl PartialOrd for U256 {
    fn partial_cmp(&self, o: &U256) -> Option<Ordering> {
        Some(self.cmp(o))
    }
}
impl Ord for U256 {
    fn cmp(&self, o: &U256) -> Ordering {
        for i in (0..4).rev() {
            match self.0[i].cmp(&o.0[i]) {
                Ordering::Equal => {}
                x => return x,
            }
        }
        Ordering::Equal
    }
}

impl U512 {
    pub const ZERO: U512 = U512([0; 8]);
    pub fn from_le(b: &[u8; 64]) -> U512 {
        let mut l = [0u64; 8];
        for i in 0..8 {
            l[i] = u64::from_le_bytes(b[8 * i..8 * i + 8].try_into().unwrap());
        }
        U512(l)
    }
    pub fn to_le(&self) -> [u8; 64] {
        let mut b = [0u8; 64];
        for i in 0..8 {
            b[8 * i..8 * i + 8].copy_from_slice(&self.0[i].to_le_bytes());
        }
        b
    }
    pub fn lo(&self) -> U256 {
        U256(self.0[..4].try_into().unwrap())
    }
    pub fn hi(&self) -> U256 {
        U256(self.0[4..].try_into().unwrap())
    }
    pub fn from_parts(lo: &U256, hi: &U256) -> U512 {
        let mut r = [0u64; 8];
        r[..4].copy_from_slice(&lo.0);
        r[4..].copy_from_slice(&hi.0);
        U512(r)
    }
    pub fn bit(&self, i: usize) -> bool {
        i < 512 && (self.0[i / 64] >> (i % 64)) & 1 == 1
    }
    pub fn bits(&self) -> usize {
        for i in (0..8).rev() {
            if self.0[i] != 0 {
                return 64 * i + 64 - self.0[i].leading_zeros() as usize;
            }
        }
        0
    }
    pub fn add_c(&self, o: &U512) -> (U512, bool) {
        let mut r = [0u64; 8];
        let mut c = 0u128;
        for i in 0..8 {
            let t = self.0[i] as u128 + o.0[i] as u128 + c;
            r[i] = t as u64;
            c = t >> 64;
        }
        (U512(r), c != 0)
    }
    pub fn sub_b(&self, o: &U512) -> (U512, bool) {
        let mut r = [0u64; 8];
        let mut b = 0u64;
        for i in 0..8 {
            let (t1, b1) = self.0[i].overflowing_sub(o.0[i]);
            let (t2, b2) = t1.overflowing_sub(b);
            r[i] = t2;
            b = (b1 | b2) as u64;
        }
        (U512(r), b != 0)
    }
    pub fn cmp512(&self, o: &U512) -> Ordering {
        for i in (0..8).rev() {
            match self.0[i].cmp(&o.0[i]) {
                Ordering::Equal => {}
                x => return x,
            }
        }
        Ordering::Equal
    }
    /// Remainder modulo a 256-bit modulus by bitwise long division (MSB first).
    pub fn rem(&self, m: &U256) -> U256 {
        assert!(!m.is_zero());
        // Start with the top (bits(m)-1) bits of self, which are < 2^(bits(m)-1) <= m, then
        // bring down one bit at a time. r*2+bit may need 257 bits: keep an explicit carry bit.
        let n = self.bits();
        let k = m.bits() - 1;
        if n <= k {
            return self.lo();
        }
        let mut r = self.shr(n - k).lo();
        for i in (0..n - k).rev() {
            let top = r.bit(255);
            r = r.shl(1);
            if self.bit(i) {
                r.0[0] |= 1;
            }
            if top || r >= *m {
                r = r.wrapping_sub(m);
            }
        }
        r
    }
    pub fn shr(&self, n: usize) -> U512 {
        if n >= 512 {
            return U512::ZERO;
        }
        let (w, b) = (n / 64, n % 64);
        let mut r = [0u64; 8];
        for i in 0..8 - w {
            r[i] = self.0[i + w] >> b;
            if b > 0 && i + w + 1 < 8 {
                r[i] |= self.0[i + w + 1] << (64 - b);
            }
        }
        U512(r)
    }
}
