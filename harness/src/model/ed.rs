//! Twisted Edwards curve -x^2 + y^2 = 1 + d x^2 y^2 over GF(p): textbook affine law,
//! plus a projective (X:Y:Z) variant (Bernstein-Birkner-Joye-Lange-Peters 2008) for speed.
use super::big::U256;
use super::fp::{d, Fp};
use super::sc::l;

#[derive(Clone, Copy, PartialEq, Eq, Hash, Debug)]
pub struct Aff {
    pub x: Fp,
    pub y: Fp,
}

#[derive(Clone, Copy, Debug)]
pub struct Proj {
    pub x: Fp,
    pub y: Fp,
    pub z: Fp,
}

impl Aff {
    pub const IDENTITY: Aff = Aff { x: Fp::ZERO, y: Fp::ONE };
    pub fn on_curve(&self) -> bool {
        let xx = self.x.sq();
        let yy = self.y.sq();
        yy.sub(&xx) == Fp::ONE.add(&d().mul(&xx).mul(&yy))
    }
    /// textbook affine addition (complete: d is a non-square, a = -1 is a square)
    pub fn add(&self, o: &Aff) -> Aff {
        let dd = d();
        let x1y2 = self.x.mul(&o.y);
        let y1x2 = self.y.mul(&o.x);
        let y1y2 = self.y.mul(&o.y);
        let x1x2 = self.x.mul(&o.x);
        let t = dd.mul(&x1x2).mul(&y1y2);
        let x3 = x1y2.add(&y1x2).div(&Fp::ONE.add(&t));
        let y3 = y1y2.add(&x1x2).div(&Fp::ONE.sub(&t));
        Aff { x: x3, y: y3 }
    }
    pub fn neg(&self) -> Aff {
        Aff { x: self.x.neg(), y: self.y }
    }
    pub fn sub(&self, o: &Aff) -> Aff {
        self.add(&o.neg())
    }
    pub fn dbl(&self) -> Aff {
        self.add(self)
    }
    pub fn is_identity(&self) -> bool {
        *self == Aff::IDENTITY
    }
    pub fn to_proj(&self) -> Proj {
        Proj { x: self.x, y: self.y, z: Fp::ONE }
    }
    /// scalar multiplication by any 256-bit integer (projective double-and-add)
    pub fn mul(&self, k: &U256) -> Aff {
        self.to_proj().mul(k).to_aff()
    }
    /// slow affine double-and-add, for self-test cross-checking only
    pub fn mul_affine(&self, k: &U256) -> Aff {
        let mut r = Aff::IDENTITY;
        for i in (0..k.bits()).rev() {
            r = r.dbl();
            if k.bit(i) {
                r = r.add(self);
            }
        }
        r
    }
    pub fn mul8(&self) -> Aff {
        self.dbl().dbl().dbl()
    }
    /// canonical RFC 8032 encoding: y little-endian, sign of x in bit 255
    pub fn compress(&self) -> [u8; 32] {
        let mut b = self.y.to_bytes();
        if self.x.is_neg() {
            b[31] |= 0x80;
        }
        b
    }
    /// dalek's decoding rule: y = low 255 bits reduced mod p (non-canonical y accepted);
    /// Some iff (y^2-1)/(d y^2+1) is a square; x gets the requested sign unless x = 0.
    pub fn decompress(b: &[u8; 32]) -> Option<Aff> {
        let sign = b[31] >> 7 == 1;
        let y = Fp::from_bytes(b);
        let yy = y.sq();
        let u = yy.sub(&Fp::ONE);
        let v = d().mul(&yy).add(&Fp::ONE);
        // v != 0 always (-1/d is a non-square)
        let xx = u.div(&v);
        let mut x = xx.sqrt_even()?;
        if sign {
            x = x.neg();
        }
        Some(Aff { x, y })
    }
    /// RFC 8032 strict decoding: y canonical, and x = 0 with sign bit set rejected
    pub fn decompress_rfc8032(b: &[u8; 32]) -> Option<Aff> {
        let mut c = *b;
        c[31] &= 0x7f;
        if U256::from_le(&c) >= super::fp::p() {
            return None;
        }
        let a = Aff::decompress(b)?;
        if a.x.is_zero() && b[31] >> 7 == 1 {
            return None;
        }
        Some(a)
    }
    pub fn is_small_order(&self) -> bool {
        self.mul8().is_identity()
    }
    pub fn is_torsion_free(&self) -> bool {
        self.mul(&l()).is_identity()
    }
    pub fn basepoint() -> Aff {
        static B: std::sync::OnceLock<Aff> = std::sync::OnceLock::new();
        *B.get_or_init(Aff::basepoint_compute)
    }
    fn basepoint_compute() -> Aff {
        // y = 4/5, x even
        let y = Fp::from_u64(4).div(&Fp::from_u64(5));
        let mut b = y.to_bytes();
        b[31] &= 0x7f;
        Aff::decompress(&b).expect("basepoint")
    }
    /// Montgomery u = (1+y)/(1-y); identity (y = 1) maps to 0 by the inv(0)=0 convention.
    pub fn to_montgomery_u(&self) -> Fp {
        Fp::ONE.add(&self.y).mul(&Fp::ONE.sub(&self.y).inv())
    }
}

impl Proj {
    pub fn identity() -> Proj {
        Proj { x: Fp::ZERO, y: Fp::ONE, z: Fp::ONE }
    }
    pub fn to_aff(&self) -> Aff {
        let zi = self.z.inv();
        Aff { x: self.x.mul(&zi), y: self.y.mul(&zi) }
    }
    /// add-2008-bbjlp with a = -1
    pub fn add(&self, o: &Proj) -> Proj {
        let a = self.z.mul(&o.z);
        let b = a.sq();
        let c = self.x.mul(&o.x);
        let dd = self.y.mul(&o.y);
        let e = d().mul(&c).mul(&dd);
        let f = b.sub(&e);
        let g = b.add(&e);
        let x3 = a.mul(&f).mul(&self.x.add(&self.y).mul(&o.x.add(&o.y)).sub(&c).sub(&dd));
        let y3 = a.mul(&g).mul(&dd.add(&c)); // D - a*C with a = -1
        let z3 = f.mul(&g);
        Proj { x: x3, y: y3, z: z3 }
    }
    pub fn mul(&self, k: &U256) -> Proj {
        let mut r = Proj::identity();
        for i in (0..k.bits()).rev() {
            r = r.add(&r);
            if k.bit(i) {
                r = r.add(self);
            }
        }
        r
    }
}

/// A generator of E[8]: a point of exact order 8 (computed, not copied from dalek).
pub fn torsion_generator() -> Aff {
    static T: std::sync::OnceLock<Aff> = std::sync::OnceLock::new();
    *T.get_or_init(torsion_generator_compute)
}
fn torsion_generator_compute() -> Aff {
    // Find by cofactor-killing the l-part of a deterministic non-subgroup point.
    // Try y = 2, 3, ... until a curve point P with [l]P of order exactly 8.
    let mut y = 2u64;
    loop {
        let mut b = Fp::from_u64(y).to_bytes();
        b[31] &= 0x7f;
        if let Some(pt) = Aff::decompress(&b) {
            let t = pt.mul(&l());
            let t4 = t.dbl().dbl();
            if !t4.is_identity() {
                return t;
            }
        }
        y += 1;
    }
}

/// All eight torsion points, E[8] = { i*T8 }.
pub fn torsion_points() -> Vec<Aff> {
    let t8 = torsion_generator();
    let mut v = vec![Aff::IDENTITY];
    for i in 1..8 {
        let prev: Aff = v[i - 1];
        v.push(prev.add(&t8));
    }
    v
}
