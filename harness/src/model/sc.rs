//! Z/l, l = 2^252 + 27742317777372353535851937790883648493, as plain integers in [0, l).
use super::big::{U256, U512};

pub fn l() -> U256 {
    static L: std::sync::OnceLock<U256> = std::sync::OnceLock::new();
    *L.get_or_init(|| U256::from_u64(1).shl(252).wrapping_add(&U256::from_dec("27742317777372353535851937790883648493")))
}

#[derive(Clone, Copy, PartialEq, Eq, Hash, Debug)]
pub struct Sc(pub U256); // invariant: < l

impl Sc {
    pub const ZERO: Sc = Sc(U256::ZERO);
    pub const ONE: Sc = Sc(U256::ONE);
    pub fn from_u64(x: u64) -> Sc {
        Sc(U256::from_u64(x))
    }
    pub fn from_u256(x: &U256) -> Sc {
        Sc(x.rem(&l()))
    }
    pub fn from_bytes_mod_order(b: &[u8; 32]) -> Sc {
        Sc::from_u256(&U256::from_le(b))
    }
    pub fn from_bytes_mod_order_wide(b: &[u8; 64]) -> Sc {
        Sc::from_u512(&U512::from_le(b))
    }
    /// x mod l by folding with 2^256 = -16c (mod l), c = l - 2^252. Cross-checked against the
    /// bitwise long division (`U512::rem`) by the self-test.
    pub fn from_u512(x: &U512) -> Sc {
        let c16 = l().wrapping_sub(&U256::ONE.shl(252)).shl(4); // 16c < 2^129
        let lo0 = x.lo();
        let n1 = c16.mul_wide(&x.hi()); // < 2^385 ; x = lo0 - n1
        let lo1 = n1.lo();
        let n2 = c16.mul_wide(&n1.hi()); // < 2^258 ; n1 = lo1 - n2
        let lo2 = n2.lo();
        let n3 = c16.mul_wide(&n2.hi()); // < 2^131 ; n2 = lo2 - n3
        debug_assert!(n3.hi().is_zero());
        // x = lo0 - lo1 + lo2 - n3
        let pos = Sc::from_u256(&lo0).add(&Sc::from_u256(&lo2));
        let neg = Sc::from_u256(&lo1).add(&Sc::from_u256(&n3.lo()));
        pos.sub(&neg)
    }
    pub fn from_canonical(b: &[u8; 32]) -> Option<Sc> {
        let v = U256::from_le(b);
        if v < l() {
            Some(Sc(v))
        } else {
            None
        }
    }
    pub fn to_bytes(&self) -> [u8; 32] {
        self.0.to_le()
    }
    pub fn is_zero(&self) -> bool {
        self.0.is_zero()
    }
    pub fn add(&self, o: &Sc) -> Sc {
        let (s, c) = self.0.add_c(&o.0);
        debug_assert!(!c);
        Sc::from_u256(&s)
    }
    pub fn neg(&self) -> Sc {
        if self.is_zero() {
            *self
        } else {
            Sc(l().wrapping_sub(&self.0))
        }
    }
    pub fn sub(&self, o: &Sc) -> Sc {
        self.add(&o.neg())
    }
    pub fn mul(&self, o: &Sc) -> Sc {
        Sc::from_u512(&self.0.mul_wide(&o.0))
    }
    pub fn pow(&self, e: &U256) -> Sc {
        let mut r = Sc::ONE;
        for i in (0..e.bits()).rev() {
            r = r.mul(&r);
            if e.bit(i) {
                r = r.mul(self);
            }
        }
        r
    }
    pub fn inv(&self) -> Sc {
        self.pow(&l().wrapping_sub(&U256::from_u64(2)))
    }
    /// 0 / 1 / 2(-1)
    pub fn legendre(&self) -> u8 {
        let r = self.pow(&l().wrapping_sub(&U256::ONE).shr(1));
        if r.is_zero() {
            0
        } else if r == Sc::ONE {
            1
        } else {
            2
        }
    }
}

/// RFC 7748 / RFC 8032 clamping of a 32-byte string.
pub fn clamp(b: &[u8; 32]) -> [u8; 32] {
    let mut c = *b;
    c[0] &= 248;
    c[31] &= 127;
    c[31] |= 64;
    c
}
