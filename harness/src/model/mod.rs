//! Independent reference model: plain integers mod p / mod l, textbook curve arithmetic,
//! RFC 7748 / 8032 / 9496 transcriptions. Shares no code or representation with the crates.
pub mod big;
pub mod ed;
pub mod eddsa;
pub mod fp;
pub mod mont;
pub mod rist;
pub mod sc;
