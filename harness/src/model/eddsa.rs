//! RFC 8032 Ed25519 / Ed25519ph / Ed25519ctx-style dom2, on the integer model.
//! SHA-512 is the sha2 crate (the properties concern dalek's use of the hash, not the hash).
use super::big::U256;
use super::ed::Aff;
use super::sc::{clamp, l, Sc};
use sha2::{Digest, Sha512};

pub fn sha512(parts: &[&[u8]]) -> [u8; 64] {
    let mut h = Sha512::new();
    for p in parts {
        h.update(p);
    }
    h.finalize().into()
}

pub fn dom2(phflag: u8, ctx: &[u8]) -> Vec<u8> {
    assert!(ctx.len() <= 255);
    let mut v = b"SigEd25519 no Ed25519 collisions".to_vec();
    v.push(phflag);
    v.push(ctx.len() as u8);
    v.extend_from_slice(ctx);
    v
}

pub struct Expanded {
    pub a_bytes: [u8; 32], // clamped, unreduced
    pub prefix: [u8; 32],
    pub pk: [u8; 32],
}

pub fn expand(seed: &[u8; 32]) -> Expanded {
    let h = sha512(&[seed]);
    let a_bytes = clamp(h[..32].try_into().unwrap());
    let prefix: [u8; 32] = h[32..].try_into().unwrap();
    let pk = Aff::basepoint().mul(&U256::from_le(&a_bytes)).compress();
    Expanded { a_bytes, prefix, pk }
}

/// Signing with an arbitrary (scalar a mod l, prefix, public key bytes) triple; `dom` is empty
/// for pure Ed25519 or dom2(1, ctx) for Ed25519ph (then `msg` is the 64-byte prehash).
pub fn sign_raw(a: &Sc, prefix: &[u8; 32], pk: &[u8; 32], dom: &[u8], msg: &[u8]) -> [u8; 64] {
    let r = Sc::from_bytes_mod_order_wide(&sha512(&[dom, prefix, msg]));
    let rr = Aff::basepoint().mul(&r.0).compress();
    let k = Sc::from_bytes_mod_order_wide(&sha512(&[dom, &rr, pk, msg]));
    let s = r.add(&k.mul(a));
    let mut sig = [0u8; 64];
    sig[..32].copy_from_slice(&rr);
    sig[32..].copy_from_slice(&s.to_bytes());
    sig
}

pub fn sign(seed: &[u8; 32], msg: &[u8]) -> [u8; 64] {
    let e = expand(seed);
    sign_raw(&Sc::from_bytes_mod_order(&e.a_bytes), &e.prefix, &e.pk, &[], msg)
}

pub fn sign_ph(seed: &[u8; 32], prehash: &[u8; 64], ctx: &[u8]) -> [u8; 64] {
    let e = expand(seed);
    sign_raw(&Sc::from_bytes_mod_order(&e.a_bytes), &e.prefix, &e.pk, &dom2(1, ctx), prehash)
}

#[derive(Clone, Copy, PartialEq, Eq, Debug)]
pub enum SCheck {
    /// S < l
    Canonical,
    /// legacy_compatibility: only the top three bits of S must be clear... (see check_scalar)
    Legacy,
}

/// dalek's legacy rule (ed25519-dalek signature.rs check_scalar under legacy_compatibility):
/// reject iff any of the top 3 bits... is set; otherwise accept (the scalar is then used mod l).
pub fn s_ok(s_bytes: &[u8; 32], rule: SCheck) -> bool {
    match rule {
        SCheck::Canonical => U256::from_le(s_bytes) < l(),
        SCheck::Legacy => s_bytes[31] & 0b1110_0000 == 0,
    }
}

/// The documented acceptance predicate of (non-strict) verification:
/// S passes the range rule, A decodes (dalek rule), and encode([S]B - [k]A) == R bytes,
/// with k = H(dom || R || A_bytes_as_given || M) mod l.
pub fn verify(pk: &[u8; 32], dom: &[u8], msg: &[u8], sig: &[u8; 64], rule: SCheck) -> bool {
    let r_bytes: [u8; 32] = sig[..32].try_into().unwrap();
    let s_bytes: [u8; 32] = sig[32..].try_into().unwrap();
    if !s_ok(&s_bytes, rule) {
        return false;
    }
    let a = match Aff::decompress(pk) {
        Some(a) => a,
        None => return false,
    };
    let k = Sc::from_bytes_mod_order_wide(&sha512(&[dom, &r_bytes, pk, msg]));
    let s = U256::from_le(&s_bytes);
    let sb = Aff::basepoint().mul(&s);
    let ka = a.mul(&k.0);
    sb.sub(&ka).compress() == r_bytes
}

/// strict: additionally R must decode, and neither R nor A may have small order.
pub fn verify_strict(pk: &[u8; 32], dom: &[u8], msg: &[u8], sig: &[u8; 64], rule: SCheck) -> bool {
    let r_bytes: [u8; 32] = sig[..32].try_into().unwrap();
    let a = match Aff::decompress(pk) {
        Some(a) => a,
        None => return false,
    };
    let r = match Aff::decompress(&r_bytes) {
        Some(r) => r,
        None => return false,
    };
    if a.is_small_order() || r.is_small_order() {
        return false;
    }
    verify(pk, dom, msg, sig, rule)
}
