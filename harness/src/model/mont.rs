//! RFC 7748 X25519, transcribed from the RFC's pseudocode.
use super::big::U256;
use super::fp::Fp;

fn cswap(swap: bool, a: &mut Fp, b: &mut Fp) {
    if swap {
        core::mem::swap(a, b);
    }
}

/// The Montgomery ladder of RFC 7748 section 5 over `bits` bits of k (bit t-1 down to 0),
/// with u already decoded. Returns x_2 * z_2^(p-2).
pub fn ladder(k: &U256, nbits: usize, u: &Fp) -> Fp {
    let a24 = Fp::from_u64(121665);
    let x1 = *u;
    let (mut x2, mut z2, mut x3, mut z3) = (Fp::ONE, Fp::ZERO, *u, Fp::ONE);
    let mut swap = false;
    for t in (0..nbits).rev() {
        let kt = k.bit(t);
        swap ^= kt;
        cswap(swap, &mut x2, &mut x3);
        cswap(swap, &mut z2, &mut z3);
        swap = kt;
        let a = x2.add(&z2);
        let aa = a.sq();
        let b = x2.sub(&z2);
        let bb = b.sq();
        let e = aa.sub(&bb);
        let c = x3.add(&z3);
        let dd = x3.sub(&z3);
        let da = dd.mul(&a);
        let cb = c.mul(&b);
        x3 = da.add(&cb).sq();
        z3 = x1.mul(&da.sub(&cb).sq());
        x2 = aa.mul(&bb);
        z2 = e.mul(&aa.add(&a24.mul(&e)));
    }
    cswap(swap, &mut x2, &mut x3);
    cswap(swap, &mut z2, &mut z3);
    x2.mul(&z2.inv())
}

/// X25519(k, u) on byte strings: decodeScalar25519 clamps, decodeUCoordinate masks bit 255
/// and reduces mod p.
pub fn x25519(k: &[u8; 32], u: &[u8; 32]) -> [u8; 32] {
    let kc = super::sc::clamp(k);
    let uu = Fp::from_bytes(u);
    ladder(&U256::from_le(&kc), 255, &uu).to_bytes()
}

/// ladder over an explicit big-endian bit string (for mul_bits_be); any length.
pub fn ladder_bits_be(bits: &[bool], u: &Fp) -> Fp {
    // generic double-and-add on the x-line via the same RFC step, any number of bits
    let a24 = Fp::from_u64(121665);
    let x1 = *u;
    let (mut x2, mut z2, mut x3, mut z3) = (Fp::ONE, Fp::ZERO, *u, Fp::ONE);
    let mut swap = false;
    for &kt in bits {
        swap ^= kt;
        cswap(swap, &mut x2, &mut x3);
        cswap(swap, &mut z2, &mut z3);
        swap = kt;
        let a = x2.add(&z2);
        let aa = a.sq();
        let b = x2.sub(&z2);
        let bb = b.sq();
        let e = aa.sub(&bb);
        let c = x3.add(&z3);
        let dd = x3.sub(&z3);
        let da = dd.mul(&a);
        let cb = c.mul(&b);
        x3 = da.add(&cb).sq();
        z3 = x1.mul(&da.sub(&cb).sq());
        x2 = aa.mul(&bb);
        z2 = e.mul(&aa.add(&a24.mul(&e)));
    }
    cswap(swap, &mut x2, &mut x3);
    cswap(swap, &mut z2, &mut z3);
    x2.mul(&z2.inv())
}

/// Is u the u-coordinate of a point on the curve v^2 = u^3 + A u^2 + u (as opposed to the twist)?
pub fn on_curve(u: &Fp) -> bool {
    let a = Fp::from_u64(486662);
    let rhs = u.sq().mul(u).add(&a.mul(&u.sq())).add(u);
    rhs.is_square()
}
