//! Request streams for the cross-configuration checks (C05, C11 layer 4): one deterministic stream
//! of public-API requests is generated once and replayed against every build / dispatch choice.
use crate::props::{self, Tier};
use crate::req::{Req, Resp};
use proptest::prelude::*;
use proptest::strategy::ValueTree;
use proptest::test_runner::{Config, RngSeed, TestRunner};
use serde_json::{json, Value};
use std::io::{BufRead, Write};

fn arg_after(args: &[String], flag: &str) -> Option<String> {
    args.iter().position(|a| a == flag).and_then(|i| args.get(i + 1).cloned())
}

/// every public operation of the three crates, with the generators of the per-property checks
pub fn public_strategy() -> BoxedStrategy<Req> {
    let tables = true; // table ops answer "unsupported" in builds without the feature and are skipped there
    prop_oneof![
        10 => props::c02::strategy(),
        6 => props::c03::public_strategy(),
        10 => props::c04::single_strategy(tables),
        3 => props::c04::msm_strategy(vec![0, 1, 2, 3, 8, 33], false),
        3 => props::c04::chain_strategy(),
        6 => props::c06::strategy(false, tables),
        8 => props::c07::strategy(),
        5 => props::c08::strategy(),
        8 => props::c09::strategy(),
        2 => props::c13::batch(vec![0, 1, 2, 3, 8]),
        6 => props::c15::strategy(false),
        4 => props::c16::roundtrip_strategy(),
        4 => props::c16::de_strategy(),
        6 => props::c17::strategy(),
        1 => Just(Req::new("kp.public", vec![])),
        1 => Just(Req::new("ed.consts", vec![])),
    ].boxed()
}

/// large multiscalar cases (regime boundaries), kept few
pub fn large_strategy() -> BoxedStrategy<Req> {
    prop_oneof![
        3 => props::c04::msm_strategy(vec![189, 190, 191, 500, 800], true),
        1 => props::c13::batch(vec![94, 95, 96, 190]),
    ].boxed()
}

/// driver gen-stream --seed S --count N [--large M] --out FILE
pub fn cmd_gen(args: &[String]) -> i32 {
    let seed: u64 = arg_after(args, "--seed").and_then(|s| s.parse().ok()).unwrap_or(0);
    let count: usize = arg_after(args, "--count").and_then(|s| s.parse().ok()).unwrap_or(1000);
    let large: usize = arg_after(args, "--large").and_then(|s| s.parse().ok()).unwrap_or(0);
    let out = arg_after(args, "--out").unwrap_or_else(|| "/dev/stdout".into());
    let mut runner = TestRunner::new(Config { rng_seed: RngSeed::Fixed(seed ^ 0x5ca1ab1e), failure_persistence: None, ..Config::default() });
    let mut f = std::io::BufWriter::new(std::fs::File::create(&out).expect("create stream file"));
    let s = public_strategy();
    for _ in 0..count {
        let r = s.new_tree(&mut runner).expect("generate").current();
        writeln!(f, "{}", r.to_json()).unwrap();
    }
    // a fixed grid first: every size regime of the variable-time algorithms (Straus < 190 <= Pippenger with
    // w = 6 below 500, w = 7 below 800, w = 8 from 800) under each variable-time entry point - so that no regime
    // is left to chance (the seeded change C11d, radix-256 digit -128 in the serial Pippenger, was met by the
    // random large cases only about every second run)
    let mut done = 0;
    if large > 0 {
        for (n, kind) in [(189usize, 1u8), (190, 1), (500, 4), (800, 1), (1000, 2), (800, 4), (190, 0)] {
            let r = props::c04::msm_fixed(n, kind).new_tree(&mut runner).expect("generate").current();
            writeln!(f, "{}", r.to_json()).unwrap();
            done += 1;
        }
    }
    let l = large_strategy();
    for _ in done..large.max(done) {
        let r = l.new_tree(&mut runner).expect("generate").current();
        writeln!(f, "{}", r.to_json()).unwrap();
    }
    0
}

fn force(kind: u8) {
    #[cfg(curve25519_dalek_verif)]
    curve25519_dalek::verif_hooks::force_backend(kind);
    let _ = kind;
}

/// driver exec-stream --in FILE --out FILE [--force K] [--judge]
/// writes one response per line; with --judge also the model's verdict and the labels of each request
pub fn cmd_exec(args: &[String]) -> i32 {
    let inp = arg_after(args, "--in").expect("--in");
    let out = arg_after(args, "--out").expect("--out");
    let kind: u8 = arg_after(args, "--force").and_then(|s| s.parse().ok()).unwrap_or(0);
    let judge = args.iter().any(|a| a == "--judge");
    force(kind);
    let f = std::io::BufReader::new(std::fs::File::open(&inp).expect("open stream"));
    let mut o = std::io::BufWriter::new(std::fs::File::create(&out).expect("create out"));
    for line in f.lines() {
        let line = line.unwrap();
        let v: Value = serde_json::from_str(&line).expect("json");
        let req = Req::from_json(&v).expect("req");
        let resp = crate::ops::exec(&req);
        if judge {
            let verdict = match resp {
                Resp::Unsup => Value::Null,
                _ => match props::c15::oracle(&req, &resp) {
                    Ok(()) => json!("ok"),
                    Err(m) => json!({"model": m}),
                },
            };
            let labels = props::classify_any(&req, &resp);
            writeln!(o, "{}", json!({"r": resp.to_json(), "v": verdict, "l": labels})).unwrap();
        } else {
            writeln!(o, "{}", json!({"r": resp.to_json()})).unwrap();
        }
    }
    let _ = Tier::Quick;
    // how close the public-API stream came to the documented lane bounds (C11 evidence)
    let _ = std::fs::write(format!("{}.monitors", out), serde_json::to_string(&crate::ops::monitor_report()).unwrap());
    0
}

/// driver gen-secrets --seed S --count K : K generated 64-byte secrets (hex), after the fixed extremes
/// (all-zero, all-ones, the nibble patterns that drive table lookups to their extremes)
pub fn cmd_gen_secrets(args: &[String]) -> i32 {
    let seed: u64 = arg_after(args, "--seed").and_then(|s| s.parse().ok()).unwrap_or(0);
    let count: usize = arg_after(args, "--count").and_then(|s| s.parse().ok()).unwrap_or(2);
    for b in [0x00u8, 0xff, 0x88, 0x77, 0x80, 0x01] {
        println!("{}", crate::util::hex(&[b; 64]));
    }
    // secrets RELATED to the driver's fixed public inputs (pub_point = 0x1234567*B, pub_point2 = 0x7654321*B,
    // pub_scalar = [0x5a;32] mod l): equal / opposite / same-x values are exactly where a short-circuit or an
    // "early equal" path would show, and random secrets never hit them. Byte 32 picks the torsion component of
    // the driver's second secret point.
    {
        use curve25519_dalek::scalar::Scalar;
        let k = Scalar::from(0x1234567u64);
        let k2 = Scalar::from(0x7654321u64);
        let ps = Scalar::from_bytes_mod_order([0x5a; 32]);
        let mk = |s: Scalar, t: u8| {
            let mut x = [0u8; 64];
            x[..32].copy_from_slice(&s.to_bytes());
            x[32] = t;
            x
        };
        for x in [mk(k, 0), mk(-k, 0), mk(-k, 4), mk(k, 4), mk(ps, 0), mk(-ps, 1), mk(k2, 0), mk(k - Scalar::ONE, 2)] {
            println!("{}", crate::util::hex(&x));
        }
        let mut raw = [0u8; 64];
        raw[..32].copy_from_slice(&[0x5a; 32]);
        println!("{}", crate::util::hex(&raw));
    }
    let mut runner = TestRunner::new(Config { rng_seed: RngSeed::Fixed(seed ^ 0xc10c10), failure_persistence: None, ..Config::default() });
    let s = prop_oneof![
        3 => crate::gens::u512_interesting(),
        2 => (crate::gens::scalar_digits(), crate::gens::scalar_word_edges()).prop_map(|(a, b)| crate::gens::join64(&a, &b)),
        2 => any::<[u8; 32]>().prop_map(|a| crate::gens::join64(&a, &a)),
        1 => (0usize..512).prop_map(|k| { let mut x = [0u8; 64]; x[k / 8] = 1 << (k % 8); x }),
    ];
    for _ in 0..count {
        let v = s.new_tree(&mut runner).expect("generate").current();
        println!("{}", crate::util::hex(&v));
    }
    0
}

/// driver gen-fuzz-corpus --seed S --count N --out DIR : seed corpus for the cargo-fuzz targets, built
/// from the structured generators (so libFuzzer starts from the special values, not from nothing)
pub fn cmd_gen_fuzz_corpus(args: &[String]) -> i32 {
    let seed: u64 = arg_after(args, "--seed").and_then(|s| s.parse().ok()).unwrap_or(0);
    let count: usize = arg_after(args, "--count").and_then(|s| s.parse().ok()).unwrap_or(300);
    let out = arg_after(args, "--out").expect("--out");
    let mut runner = TestRunner::new(Config { rng_seed: RngSeed::Fixed(seed ^ 0xf022), failure_persistence: None, ..Config::default() });
    let write = |dir: &str, bytes: &[u8]| {
        let d = format!("{}/{}", out, dir);
        std::fs::create_dir_all(&d).unwrap();
        std::fs::write(format!("{}/{:016x}", d, crate::util::fnv(bytes)), bytes).unwrap();
    };
    // fz_untrusted: [selector] ++ payload, selectors as in fuzz_targets/fz_untrusted.rs
    let e32 = crate::gens::edwards_encoding().prop_map(|(_, e)| e.to_vec());
    let r32 = props::c06::encoding().prop_map(|e| e.to_vec());
    let u32_ = crate::gens::u256_interesting().prop_map(|e| e.to_vec());
    let r64 = props::c06::map_input().prop_map(|e| e.to_vec());
    let mu = crate::gens::montgomery_u().prop_map(|(_, e)| e.to_vec());
    for _ in 0..count {
        let mut gen = |s: &BoxedStrategy<Vec<u8>>| s.new_tree(&mut runner).unwrap().current();
        let (e, r, u, w, m) = (gen(&e32.clone().boxed()), gen(&r32.clone().boxed()), gen(&u32_.clone().boxed()), gen(&r64.clone().boxed()), gen(&mu.clone().boxed()));
        let cases: Vec<(u8, Vec<u8>)> = vec![
            (0, e.clone()), (1, e.clone()), (2, r.clone()), (3, u.clone()), (4, w.clone()), (5, [vec![1u8], w.clone()].concat()),
            (6, [vec![0u8], m.clone()].concat()), (7, [u.clone(), m.clone()].concat()), (10, e.clone()), (11, r.clone()), (12, u.clone()),
            (13, [u.clone(), e.clone()].concat()), (14, e.clone()), (15, w.clone()),
            (8, [vec![1u8, 1], format!("[{}]", e.iter().map(|x| x.to_string()).collect::<Vec<_>>().join(",")).into_bytes()].concat()),
            (8, [vec![7u8, 0], 32u64.to_le_bytes().to_vec(), e.clone()].concat()),
            (9, [vec![0u8, 1, 0], u.clone()].concat()),
        ];
        for (sel, payload) in cases {
            write("fz_untrusted", &[vec![sel], payload].concat());
        }
        let ck = props::c15::chosen_k().new_tree(&mut runner).unwrap().current();
        write("fz_untrusted", &[vec![16u8], ck.a[0].clone(), ck.a[1].clone(), ck.a[2].clone(), ck.a[3].clone()].concat());
        write("fz_untrusted", &[vec![17u8], w.clone()].concat());
        write("fz_untrusted", &[vec![18u8, 1], e.clone(), e.clone()].concat());
        // fz_verify: pk(32) sig(64) flags(1) ctxlen(1) ctx msg
        let rq = props::c09::strategy().new_tree(&mut runner).unwrap().current();
        let mut b = rq.a[0].clone();
        b.extend_from_slice(&rq.a[2]);
        b.push(rq.a[4][0]);
        b.push(rq.a[3].len().min(255) as u8);
        b.extend_from_slice(&rq.a[3][..rq.a[3].len().min(255)]);
        b.extend_from_slice(&rq.a[1][..rq.a[1].len().min(200)]);
        write("fz_verify", &b);
    }
    0
}

/// driver exec-one --req JSON [--force K]  (used when replaying a cross-configuration difference)
pub fn cmd_exec_one(args: &[String]) -> i32 {
    let v: Value = serde_json::from_str(&arg_after(args, "--req").expect("--req")).expect("json");
    let kind: u8 = arg_after(args, "--force").and_then(|s| s.parse().ok()).unwrap_or(0);
    force(kind);
    let req = Req::from_json(&v).expect("req");
    println!("{}", crate::ops::exec(&req).to_json());
    0
}
