//! C07: X25519 and Montgomery-form operations conform to RFC 7748 on all inputs.
use super::Tier;
use crate::gens::*;
use crate::model::fp::{self, Fp};
use crate::model::big::U256;
use crate::model::mont;
use std::sync::OnceLock;
use crate::req::{Req, Resp};
use crate::runner::Check;
use proptest::collection::vec;
use proptest::prelude::*;

fn u() -> BoxedStrategy<B32> {
    montgomery_u().prop_map(|(_, b)| b).boxed()
}

/// the Montgomery ladder entry points (also part of C04)
pub fn ladder_ops() -> BoxedStrategy<Req> {
    prop_oneof![
        4 => (u(), scalar_unreduced255()).prop_map(|(u, s)| Req::new("mt.mul", vec![u.to_vec(), s.to_vec()])),
        3 => (u(), 0u16..=300, vec(any::<u8>(), 38), 0u8..4).prop_map(|(u, n, mut bits, lead)| {
            match lead { 0 => for b in bits.iter_mut().take(8) { *b = 0 }, 1 => for b in bits.iter_mut() { *b = 0xff }, _ => {} }
            Req::new("mt.mul_bits_be", vec![u.to_vec(), n.to_le_bytes().to_vec(), bits])
        }),
        3 => (u(), u256_interesting()).prop_map(|(u, k)| Req::new("mt.mul_clamped", vec![u.to_vec(), k.to_vec()])),
        2 => scalar_unreduced255().prop_map(|s| Req::new("mt.mul_base", vec![s.to_vec()])),
        2 => u256_interesting().prop_map(|k| Req::new("mt.mul_base_clamped", vec![k.to_vec()])),
    ].boxed()
}

fn mulmod(a: &U256, b: &U256, m: &U256) -> U256 {
    a.mul_wide(b).rem(m)
}
fn powmod(base: &U256, e: &U256, m: &U256) -> U256 {
    let mut r = U256::ONE;
    let b = base.rem(m);
    for i in (0..e.bits()).rev() {
        r = mulmod(&r, &r, m);
        if e.bit(i) {
            r = mulmod(&r, &b, m);
        }
    }
    r
}

/// u-coordinates with a single non-zero byte (first or last) whose point lies in a prime-order subgroup of the
/// curve (order l) or of the twist (order l' = 2^253 - 9 - 2*(l - 2^252)), with that order
fn sparse_targets() -> &'static Vec<(Fp, U256)> {
    static T: OnceLock<Vec<(Fp, U256)>> = OnceLock::new();
    T.get_or_init(|| {
        let l = crate::model::sc::l();
        let delta = l.wrapping_sub(&U256::ONE.shl(252));
        let lt = U256::ONE.shl(253).wrapping_sub(&U256::from_u64(9)).wrapping_sub(&delta).wrapping_sub(&delta);
        let mut v = vec![];
        for pos in [31usize, 0, 16] {
            for t in 1u8..=127 {
                let mut b = [0u8; 32];
                b[pos] = t;
                let u = Fp::from_bytes(&b);
                for m in [l, lt] {
                    if mont::ladder(&m, 255, &u) == Fp::ZERO {
                        v.push((u, m));
                    }
                }
                if v.len() >= 24 && pos == 16 {
                    break;
                }
            }
        }
        v
    })
}

/// peer keys SOLVED so that the shared secret has a single non-zero byte (the first, the last or a middle
/// one): peer = [k^-1 mod order] T. A zero test that stops one byte short sees these as zero
/// (added after the seeded change C07e: was_contributory ignoring the last byte).
fn dh_sparse_output() -> BoxedStrategy<Req> {
    let n = sparse_targets().len();
    (0..n, 0u8..4, u256_interesting()).prop_map(|(i, kind, k)| {
        let (u, m) = &sparse_targets()[i];
        let kc = U256::from_le(&crate::model::sc::clamp(&k));
        let kinv = powmod(&kc, &m.wrapping_sub(&U256::from_u64(2)), m);
        let peer = mont::ladder(&kinv, 255, u).to_bytes();
        Req::new("x.dh", vec![vec![kind], k.to_vec(), peer.to_vec()])
    }).boxed()
}

pub fn strategy() -> BoxedStrategy<Req> {
    prop_oneof![
        1 => dh_sparse_output(),
        8 => (u256_interesting(), u()).prop_map(|(k, u)| Req::new("x.x25519", vec![k.to_vec(), u.to_vec()])),
        6 => (0u8..4, u256_interesting(), u()).prop_map(|(kind, k, u)| Req::new("x.dh", vec![vec![kind], k.to_vec(), u.to_vec()])),
        2 => (u256_interesting(), u256_interesting()).prop_map(|(a, b)| Req::new("x.two_party", vec![a.to_vec(), b.to_vec()])),
        4 => (u(), scalar_unreduced255()).prop_map(|(u, s)| Req::new("mt.mul", vec![u.to_vec(), s.to_vec()])),
        3 => (u(), 0u16..=300, vec(any::<u8>(), 38), 0u8..4).prop_map(|(u, n, mut bits, lead)| {
            // leading zeros / all ones patterns
            match lead { 0 => for b in bits.iter_mut().take(8) { *b = 0 }, 1 => for b in bits.iter_mut() { *b = 0xff }, _ => {} }
            Req::new("mt.mul_bits_be", vec![u.to_vec(), n.to_le_bytes().to_vec(), bits])
        }),
        3 => (u(), u256_interesting()).prop_map(|(u, k)| Req::new("mt.mul_clamped", vec![u.to_vec(), k.to_vec()])),
        2 => scalar_unreduced255().prop_map(|s| Req::new("mt.mul_base", vec![s.to_vec()])),
        2 => u256_interesting().prop_map(|k| Req::new("mt.mul_base_clamped", vec![k.to_vec()])),
        6 => (u(), any::<u8>()).prop_map(|(u, s)| Req::new("mt.to_edwards", vec![u.to_vec(), vec![s]])),
        4 => edwards_point().prop_map(|(_, e)| Req::new("mt.from_edwards", vec![e.to_vec()])),
        2 => edwards_encoding().prop_map(|(_, e)| Req::new("mt.from_edwards", vec![e.to_vec()])),
        3 => (u(), u()).prop_map(|(x, y)| Req::new("mt.eq", vec![x.to_vec(), y.to_vec()])),
        // same value mod p in two encodings
        2 => (u(), any::<bool>(), any::<bool>()).prop_map(|(x, hi, addp)| {
            let v = Fp::from_bytes(&x);
            let mut y = if addp && v.0 < crate::model::big::U256::from_u64(19) { v.0.wrapping_add(&fp::p()).to_le() } else { v.to_bytes() };
            if hi { y[31] |= 0x80; }
            Req::new("mt.eq", vec![x.to_vec(), y.to_vec()])
        }),
        3 => u256_interesting().prop_map(|s| Req::new("x.ed_to_x", vec![s.to_vec()])),
    ].boxed()
}

pub fn classify(req: &Req, resp: &Resp) -> Vec<&'static str> {
    let mut l = vec![];
    let mut ucheck = |b: &[u8]| {
        if b.len() != 32 { return; }
        let x: [u8; 32] = b.try_into().unwrap();
        let v = Fp::from_bytes(&x);
        let mut c = x;
        c[31] &= 0x7f;
        if x[31] >> 7 == 1 || crate::model::big::U256::from_le(&c) >= fp::p() {
            l.push("non-canonical-u");
        }
        if v == Fp::ONE.neg() {
            l.push("u=-1");
        } else if !mont::on_curve(&v) {
            l.push("twist-u");
        }
        if crate::gens::torsion().iter().any(|t| t.to_montgomery_u() == v) {
            l.push("small-order-u");
        }
    };
    match req.op.as_str() {
        "x.x25519" => { ucheck(&req.a[1]); }
        "x.dh" => { ucheck(&req.a[2]); }
        "mt.mul" | "mt.mul_bits_be" | "mt.mul_clamped" | "mt.to_edwards" | "mt.eq" => { ucheck(&req.a[0]); }
        _ => {}
    }
    let kidx = match req.op.as_str() { "x.x25519" => Some(0), "x.dh" => Some(1), "mt.mul_clamped" => Some(1), "mt.mul_base_clamped" => Some(0), _ => None };
    if let Some(i) = kidx {
        let k: [u8; 32] = req.a[i][..].try_into().unwrap();
        if crate::model::sc::clamp(&k) != k {
            l.push("clamping-changes-k");
        }
    }
    if req.op == "x.ed_to_x" { l.push("ed25519-to-x25519"); }
    if req.op == "mt.from_edwards" { l.push("edwards-to-montgomery"); }
    if *resp == Resp::Rej { l.push("rejected"); }
    l.sort();
    l.dedup();
    l
}

pub const RULE: &str = "byte-level X25519 on (k, u) with clamping-relevant k and u from every class (0, 1, -1, non-canonical p+k, bit 255, the order-4/8 u-coordinates, twist points, curve points, special patterns); typed ephemeral/reusable/static Diffie-Hellman with a byte-fed RNG (public key, shared secret, contributory flag, stored bytes, both parties agree); MontgomeryPoint * Scalar in all operator forms (unreduced scalars), the bit-string ladder (0..300 bits, leading zeros), clamped and base-point variants; to_edwards for every u class and every sign byte; to_montgomery on all Edwards point classes; equality/Hash modulo p; the Ed25519-to-X25519 conversions. Oracle = RFC 7748 ladder transcription cross-checked through the Edwards model; non-trivial = u small-order / twist / non-canonical / -1, k changed by clamping, a conversion, or a rejection";

pub fn checks(tier: Tier) -> Vec<Check> {
    vec![Check {
        name: "C07.x25519-model".into(),
        strategy: strategy(),
        cases: tier.scale(60_000, 20),
        exec: Box::new(crate::ops::exec),
        oracle: Box::new(crate::mops::oracle),
        classify: Box::new(classify),
        rule: RULE,
        exhaustive: false,
        enumerate: None,
    }]
}
