//! C12: every precomputed constant and table entry equals its definition (complete enumeration).
use super::Tier;
use crate::model::big::U256;
use crate::model::sc::Sc;
use crate::req::{Req, Resp};
use crate::runner::{Check, Exec};
use proptest::prelude::*;

fn enumerated(name: &str, items: Vec<Req>, exec: Exec, oracle: crate::runner::Oracle, rule: &'static str) -> Check {
    Check {
        name: name.into(),
        strategy: Just(Req::new("none", vec![])).boxed(),
        cases: items.len() as u32,
        exec,
        oracle,
        classify: Box::new(|r: &Req, _: &Resp| if r.op.starts_with("k") { vec!["constant-or-table-entry"] } else { vec!["table-entry-through-public-API"] }),
        rule,
        exhaustive: true,
        enumerate: Some(items),
    }
}

pub const RULE: &str = "complete enumeration: every entry of the radix-16 basepoint table (32x8, also through the transmuted Ristretto table), of the serial affine odd-multiples table (64) and of the AVX2 / IFMA cached odd-multiples tables (64 each) read out raw through the hook and compared with the model's (j+1)*256^i*B resp. (2k+1)*B; every crate-internal field constant against its defining equation; L, R, RR, LFACTOR; P_TIMES_2/16 and the vector identities; the public constants; and, independently through the public API only, mul_base of j*256^i (one table entry each) and vartime_double_scalar_mul_basepoint(0, O, 2k+1) (one odd-multiples entry each) under every forced dispatch. Every item is non-trivial and distinct by identity";

pub fn checks(_tier: Tier) -> Vec<Check> {
    let mut v = vec![];
    #[cfg(curve25519_dalek_verif)]
    {
        let mut items = vec![];
        for n in crate::mops::consts::FIELD_NAMES.iter() {
            items.push(Req::new("k.field", vec![n.as_bytes().to_vec()]));
        }
        items.push(Req::new("k.scalar", vec![]));
        for i in 0..10u8 {
            items.push(Req::new("k.point_const", vec![vec![i]]));
        }
        if cfg!(feature = "tables") {
            for i in 0..32u8 {
                for j in 0..8u8 {
                    items.push(Req::new("k.bp_table", vec![vec![i], vec![j]]));
                    items.push(Req::new("k.bp_table_rist", vec![vec![i], vec![j]]));
                }
            }
            for k in 0..64u8 {
                items.push(Req::new("k.odd_table", vec![vec![k]]));
            }
        }
        #[cfg(not(any(curve25519_dalek_backend = "serial", curve25519_dalek_backend = "fiat")))]
        {
            if std::is_x86_feature_detected!("avx2") {
                items.push(Req::new("k.avx2_consts", vec![]));
                if cfg!(feature = "tables") {
                    for k in 0..64u8 {
                        items.push(Req::new("k.avx2_odd_table", vec![vec![k]]));
                    }
                }
            }
        }
        #[cfg(curve25519_dalek_backend = "unstable_avx512")]
        {
            if std::is_x86_feature_detected!("avx512ifma") {
                items.push(Req::new("k.ifma_consts", vec![]));
                if cfg!(feature = "tables") {
                    for k in 0..64u8 {
                        items.push(Req::new("k.ifma_odd_table", vec![vec![k]]));
                    }
                }
            }
        }
        v.push(enumerated("C12.raw-readout", items, Box::new(crate::ops::exec), Box::new(crate::mops::consts::oracle), RULE));
    }
    v.push(enumerated("C12.public-constants", vec![Req::new("kp.public", vec![])], Box::new(crate::ops::exec), Box::new(crate::mops::consts::oracle), RULE));
    // through the public API, per dispatch choice
    for (label, kind) in super::c04::dispatch_choices() {
        let mut items = vec![];
        for i in 0..32usize {
            for j in 1..=8u64 {
                let s = Sc::from_u256(&U256::ONE.shl(8 * i)).mul(&Sc::from_u64(j)).to_bytes().to_vec();
                items.push(Req::new("sm.mul_base", vec![s.clone()]));
                if cfg!(feature = "tables") {
                    items.push(Req::new("sm.const_table", vec![s]));
                }
                // the same entry added to a NON-identity accumulator (an odd radix-16 digit is processed
                // first), so that its 2dxy component matters too: from the identity T = 0 hides it
                let odd = if i == 0 { Sc::from_u256(&U256::ONE.shl(12)) } else { Sc::from_u64(16) };
                let s2 = Sc::from_u256(&U256::ONE.shl(8 * i)).mul(&Sc::from_u64(j)).add(&odd).to_bytes().to_vec();
                items.push(Req::new("sm.mul_base", vec![s2.clone()]));
                if cfg!(feature = "tables") {
                    items.push(Req::new("sm.const_table", vec![s2]));
                }
            }
        }
        let id = crate::model::ed::Aff::IDENTITY.compress().to_vec();
        for k in 0..64u64 {
            items.push(Req::new("sm.double_base", vec![vec![0u8; 32], id.clone(), Sc::from_u64(2 * k + 1).to_bytes().to_vec()]));
            // and with a non-trivial dynamic part so both tables are used in one call
            items.push(Req::new("sm.double_base", vec![Sc::from_u64(2 * k + 1).to_bytes().to_vec(), crate::model::ed::Aff::basepoint().compress().to_vec(), Sc::from_u64(2 * k + 1).neg().to_bytes().to_vec()]));
        }
        v.push(enumerated(&format!("C12.public-api[{}]", label), items, super::c04::forced_exec(kind), Box::new(crate::mops::oracle), RULE));
    }
    v
}
