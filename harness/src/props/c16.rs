//! C16: serialised forms are the canonical encodings and deserialisation validates.
use super::Tier;
use crate::gens::*;
use crate::model::eddsa;
use crate::model::rist;
use crate::req::{Req, Resp};
use crate::runner::Check;
use proptest::collection::vec;
use proptest::prelude::*;

/// native bytes of a (mostly valid) value of each type
fn value_of(ty: u8) -> BoxedStrategy<Vec<u8>> {
    match ty {
        0 => prop_oneof![4 => scalar_canonical().prop_map(|b| b.to_vec()), 1 => u256_interesting().prop_map(|b| b.to_vec())].boxed(),
        1 | 7 => prop_oneof![4 => edwards_point().prop_map(|(_, e)| e.to_vec()), 2 => edwards_encoding().prop_map(|(_, e)| e.to_vec())].boxed(),
        3 => prop_oneof![4 => super::c06::element().prop_map(|e| e.to_vec()), 2 => super::c06::encoding().prop_map(|e| e.to_vec())].boxed(),
        8 => prop_oneof![2 => u512_interesting().prop_map(|b| b.to_vec()), 1 => (u256_interesting(), message()).prop_map(|(s, m)| eddsa::sign(&s, &m).to_vec())].boxed(),
        _ => u256_interesting().prop_map(|b| b.to_vec()).boxed(),
    }
}

pub fn roundtrip_strategy() -> BoxedStrategy<Req> {
    (0u8..11).prop_flat_map(|ty| value_of(ty).prop_map(move |v| Req::new("sd.roundtrip", vec![vec![ty], v]))).boxed()
}

/// structured payloads: right / short / long content, malformed JSON shapes
pub fn de_strategy() -> BoxedStrategy<Req> {
    (0u8..11, prop_oneof![3 => 0u8..2, 2 => 2u8..5]).prop_flat_map(|(ty, fmt)| {
        // combinations that are not asserted (see expected_de) are mapped onto the JSON-value deserialiser
        let fmt = if (fmt == 2 && (ty == 5 || ty == 9 || ty == 10)) || (fmt == 4 && ty == 8) { 3 } else { fmt };
        let l = if ty == 8 { 64usize } else { 32 };
        let content = prop_oneof![
            6 => value_of(ty),
            // shorter
            2 => (value_of(ty), 0usize..64).prop_map(move |(v, n)| v[..n.min(v.len().saturating_sub(1))].to_vec()),
            // longer (JSON arrays of 33.. elements; bincode length prefixes != 32)
            2 => (value_of(ty), vec(any::<u8>(), 1..8)).prop_map(|(mut v, extra)| { v.extend_from_slice(&extra); v }),
            1 => vec(any::<u8>(), 0..=70),
        ];
        let shape = if fmt == 1 { prop_oneof![5 => Just(0u8), 1 => 1u8..8, 1 => 8u8..12].boxed() } else { prop_oneof![4 => Just(0u8), 1 => Just(1u8)].boxed() };
        (content, shape).prop_filter_map("bincode trailing bytes are not asserted", move |(c, sh)| {
            // keep only payloads whose expected outcome is defined (see mops::serde_ops::expected_de)
            if crate::mops::serde_ops::expected_de(ty, fmt, sh, &c).is_some() { Some(Req::new("sd.de", vec![vec![ty], vec![fmt], vec![sh], c])) } else { None }
        }).prop_map(move |r| { let _ = l; r })
    }).boxed()
}

/// arbitrary wire bytes straight into a deserialiser
pub fn raw_strategy() -> BoxedStrategy<Req> {
    (0u8..11, 0u8..2, prop_oneof![
        3 => bytes_any_len(),
        2 => bytes_any_len().prop_map(|b| format!("[{}]", b.iter().map(|x| x.to_string()).collect::<Vec<_>>().join(",")).into_bytes()),
        1 => "[\\[\\]0-9,\" {}:a-f-]{0,120}".prop_map(|s| s.into_bytes()),
        1 => (0u64..80, bytes_any_len()).prop_map(|(n, b)| { let mut v = n.to_le_bytes().to_vec(); v.extend_from_slice(&b); v }),
    ]).prop_map(|(ty, fmt, p)| Req::new("sd.raw", vec![vec![ty], vec![fmt], p])).boxed()
}

pub fn classify(req: &Req, resp: &Resp) -> Vec<&'static str> {
    let mut l = vec![];
    let ty = req.a[0][0];
    match req.op.as_str() {
        "sd.roundtrip" => {
            if *resp == Resp::Rej { l.push("invalid-native-value"); } else { l.push("roundtrip"); }
        }
        "sd.de" => {
            let n = req.a[3].len();
            let len = if ty == 8 { 64 } else { 32 };
            if n < len { l.push("short-input"); } else if n > len { l.push("over-long-input"); }
            if req.a[1][0] == 1 && req.a[2][0] != 0 && req.a[2][0] != 7 { l.push("malformed-json-shape"); }
            if req.a[1][0] == 1 && req.a[2][0] >= 8 { l.push("valid-prefix-plus-unparsable-trailing-element"); }
            if n == len && *resp == Resp::Rej { l.push("right-length-invalid-encoding-rejected"); }
            if *resp != Resp::Rej { l.push("accepted"); }
        }
        _ => l.push("raw-wire-bytes"),
    }
    let _ = rist::sqrt_m1;
    l
}

pub const RULE: &str = "all 11 serialisable types x {bincode, serde_json}: values from the structured generators are serialised (bytes must equal the canonical encoding: 32/64 raw bytes in bincode, 8-byte length + bytes for the serialize_bytes types, the JSON array of those bytes) and deserialised back; Deserialize is fed payloads built from right-length valid / right-length invalid (non-canonical scalar, undecodable Edwards / Ristretto encoding) / short / over-long contents, malformed JSON shapes (element > 255 or negative, string, object, truncated, nested) and raw wire bytes; oracle: success iff the native decoder accepts the same bytes, with the re-encoded value returned; non-trivial = anything but a plain accepted right-length valid value";

/// saved failing inputs of confirmed findings (replayed on every run, bypassing proptest)
fn regressions() -> Vec<Req> {
    let key32 = crate::util::unhex("2009082996188d18baa9aaaaaaaaaaaa0a03bee22c0954a48596188df8d941c9");
    let pk32 = crate::model::ed::Aff::basepoint().compress().to_vec();
    let mut v = vec![];
    for (ty, raw) in [(6u8, key32), (7u8, pk32)] {
        for shape in 8u8..12 {
            v.push(Req::new("sd.de", vec![vec![ty], vec![1], vec![shape], raw.clone()]));
        }
        // the original fuzzer-found form: 33 elements, the last replaced by 256
        let mut r33 = raw.clone();
        r33.push(9);
        r33[0] = 32; // shape 1 replaces element raw[0] % len = 32
        v.push(Req::new("sd.de", vec![vec![ty], vec![1], vec![1], r33]));
    }
    v
}

pub fn checks(tier: Tier) -> Vec<Check> {
    vec![
        Check {
            name: "C16.regressions".into(),
            strategy: Just(Req::new("none", vec![])).boxed(),
            cases: 0,
            exec: Box::new(crate::ops::exec),
            oracle: Box::new(crate::mops::oracle),
            classify: Box::new(|_: &Req, _: &Resp| vec!["regression-input-of-a-fixed-finding"]),
            rule: RULE,
            exhaustive: false,
            enumerate: Some(regressions()),
        },
        Check {
            name: "C16.roundtrip".into(),
            strategy: roundtrip_strategy(),
            cases: tier.scale(60_000, 10),
            exec: Box::new(crate::ops::exec),
            oracle: Box::new(crate::mops::oracle),
            classify: Box::new(classify),
            rule: RULE,
            exhaustive: false,
            enumerate: None,
        },
        Check {
            name: "C16.deserialize-validates".into(),
            strategy: de_strategy(),
            cases: tier.scale(100_000, 10),
            exec: Box::new(crate::ops::exec),
            oracle: Box::new(crate::mops::oracle),
            classify: Box::new(classify),
            rule: RULE,
            exhaustive: false,
            enumerate: None,
        },
        Check {
            name: "C16.raw-wire".into(),
            strategy: raw_strategy(),
            cases: tier.scale(12_000, 10),
            exec: Box::new(crate::ops::exec),
            oracle: Box::new(crate::mops::serde_ops::oracle_raw),
            classify: Box::new(classify),
            rule: RULE,
            exhaustive: false,
            enumerate: None,
        },
    ]
}
