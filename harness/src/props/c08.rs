//! C08: Ed25519 key derivation and signing are the deterministic RFC 8032 functions.
use super::Tier;
use crate::gens::*;
use crate::model::eddsa;
use crate::req::{Req, Resp};
use crate::runner::Check;
use proptest::collection::vec;
use proptest::prelude::*;

pub fn context() -> BoxedStrategy<Vec<u8>> {
    prop_oneof![
        3 => prop::sample::select(vec![0usize, 1, 2, 31, 32, 64, 127, 128, 254, 255]).prop_flat_map(|n| vec(any::<u8>(), n)),
        2 => vec(any::<u8>(), 0..=255),
        2 => prop::sample::select(vec![256usize, 257, 300, 511, 512, 1000]).prop_flat_map(|n| vec(any::<u8>(), n)),
    ].boxed()
}
pub fn context_ok() -> BoxedStrategy<Vec<u8>> {
    prop_oneof![
        3 => prop::sample::select(vec![0usize, 1, 2, 31, 32, 64, 127, 128, 254, 255]).prop_flat_map(|n| vec(any::<u8>(), n)),
        2 => vec(any::<u8>(), 0..=255),
    ].boxed()
}

fn flip(mut v: Vec<u8>, bit: usize) -> Vec<u8> {
    if !v.is_empty() {
        let i = bit % (v.len() * 8);
        v[i / 8] ^= 1 << (i % 8);
    }
    v
}

/// honest signature then a verification request with one component replaced
fn tampered() -> BoxedStrategy<Req> {
    (u256_interesting(), message(), context_ok(), any::<bool>(), 0u8..6, any::<usize>(), u256_interesting()).prop_map(|(seed, msg, ctx, has_ctx, what, bit, other)| {
        let e = eddsa::expand(&seed);
        // a signature valid for one of the two schemes (pure when what is even, prehashed otherwise)
        let c: &[u8] = if has_ctx { &ctx } else { &[] };
        let sig = if what % 2 == 0 { eddsa::sign(&seed, &msg) } else { eddsa::sign_ph(&seed, &eddsa::sha512(&[&msg]), c) };
        let (mut pk, mut m, mut s, mut cx) = (e.pk.to_vec(), msg.clone(), sig.to_vec(), ctx.clone());
        match what {
            0 | 1 => {}                                            // untampered: accepted by the matching verifiers
            2 => pk = eddsa::expand(&other).pk.to_vec(),          // independent key
            3 => m = if m.is_empty() { vec![0] } else { flip(m, bit) },
            4 => s = flip(s, bit),
            _ => cx = if cx.is_empty() { vec![1] } else { flip(cx, bit) },
        }
        Req::new("sig.verify", vec![pk, m, s, cx, vec![has_ctx as u8]])
    }).boxed()
}

pub fn strategy() -> BoxedStrategy<Req> {
    prop_oneof![
        3 => u256_interesting().prop_map(|s| Req::new("sig.keygen", vec![s.to_vec()])),
        1 => u256_interesting().prop_map(|s| Req::new("sig.generate", vec![s.to_vec()])),
        // keypair import: matching half / another valid key / sign-flipped key / undecodable or arbitrary half
        // ... / the right key translated by a torsion point (equal after cofactor clearing) / doubled / minus a translate
        4 => (u256_interesting(), 0u8..9, u256_interesting(), 1usize..8).prop_map(|(seed, kind, other, t)| {
            let mut pk = eddsa::expand(&seed).pk;
            let a = || crate::model::ed::Aff::decompress(&eddsa::expand(&seed).pk).unwrap();
            match kind {
                0 => {}
                1 => pk = eddsa::expand(&other).pk,
                2 => pk[31] ^= 0x80,
                3 => pk = other,
                4 => pk[0] ^= 1,
                5 | 6 => pk = a().add(&torsion()[t]).compress(),
                7 => pk = a().dbl().compress(),
                _ => pk = a().neg().add(&torsion()[t]).compress(),
            }
            Req::new("sig.from_keypair", vec![join64(&seed, &pk).to_vec()])
        }),
        5 => (u256_interesting(), message()).prop_map(|(s, m)| Req::new("sig.sign", vec![s.to_vec(), m])),
        6 => (u256_interesting(), message(), context(), any::<bool>(), any::<bool>()).prop_map(|(s, m, c, has, kind)| Req::new("sig.sign_ph", vec![s.to_vec(), m, c, vec![has as u8], vec![kind as u8]])),
        // chosen 64-byte prehash through the pass-through digest
        1 => (u256_interesting(), u512_interesting(), context_ok()).prop_map(|(s, ph, c)| Req::new("sig.sign_ph", vec![s.to_vec(), ph.to_vec(), c, vec![1], vec![1]])),
        2 => (u512_interesting(), message()).prop_map(|(k, m)| Req::new("sig.expanded", vec![k.to_vec(), m])),
        6 => tampered(),
    ].boxed()
}

pub fn classify(req: &Req, resp: &Resp) -> Vec<&'static str> {
    let mut l = vec![];
    match req.op.as_str() {
        "sig.sign_ph" => {
            l.push("prehash-variant");
            let n = req.a[2].len();
            if req.a[3][0] & 1 == 1 {
                if n == 0 { l.push("ctx-len-0"); } else if n == 255 { l.push("ctx-len-255"); } else if n > 255 { l.push("ctx-len>255"); }
            }
            if req.a[4][0] & 1 == 1 { l.push("chosen-prehash"); }
        }
        "sig.sign" => {
            if [0usize, 1, 31, 32, 47, 48, 63, 64, 65, 79, 80, 111, 112, 113, 127, 128, 129].contains(&req.a[1].len()) { l.push("message-on-block-edge"); }
        }
        "sig.from_keypair" => l.push(if *resp == Resp::Rej { "keypair-mismatch-refused" } else { "keypair-accepted" }),
        "sig.expanded" => l.push("expanded-key"),
        "sig.verify" => l.push("verify-after-sign"),
        _ => {}
    }
    if !req.a.is_empty() && req.a[0].len() == 32 && special32(&req.a[0][..].try_into().unwrap()) && req.op != "sig.verify" {
        l.push("special-seed");
    }
    l
}

pub const RULE: &str = "key derivation (all constructors, keypair import with matching / foreign / sign-flipped / arbitrary / torsion-translated / doubled public half), pure signing (Signer, try_sign, hazmat raw_sign), prehashed signing (sign_prehashed, Context::sign_digest, DigestSigner, hazmat raw_sign_prehashed) with SHA-512 and with a pass-through digest for chosen prehashes, contexts of length 0..255 accepted and 256+ refused, expanded keys from arbitrary 64 bytes; messages on SHA-512 block edges; then every produced signature through all eight verification entry points, untampered and with key / message / signature / context replaced; oracle = RFC 8032 on the integer model (byte equality of keys and signatures, Ok/Err of refusals, model verdicts); non-trivial = prehash or context variant, context length 0/255/>255, block-edge message, special seed, keypair import, verification after signing";

pub fn checks(tier: Tier) -> Vec<Check> {
    vec![Check {
        name: "C08.eddsa-sign-model".into(),
        strategy: strategy(),
        cases: tier.scale(24_000, 10),
        exec: Box::new(crate::ops::exec),
        oracle: Box::new(crate::mops::oracle),
        classify: Box::new(classify),
        rule: RULE,
        exhaustive: false,
        enumerate: None,
    }]
}
