//! C09: Ed25519 verification accepts exactly the documented set (adversarial triples).
use super::Tier;
use crate::gens::*;
use crate::model::big::U256;
use crate::model::ed::Aff;
use crate::model::eddsa::{self, SCheck};
use crate::model::fp::{self, Fp};
use crate::model::sc::{self, Sc};
use crate::req::{Req, Resp};
use crate::runner::Check;
use proptest::prelude::*;
use std::sync::OnceLock;

/// every encoding the Edwards decoder accepts for a small-order point
pub fn torsion_encodings() -> &'static Vec<[u8; 32]> {
    static T: OnceLock<Vec<[u8; 32]>> = OnceLock::new();
    T.get_or_init(|| {
        let mut v: Vec<[u8; 32]> = torsion().iter().map(|p| p.compress()).collect();
        let mut extra = vec![];
        for e in v.iter() {
            let p = Aff::decompress(e).unwrap();
            if p.x.is_zero() {
                let mut f = *e;
                f[31] |= 0x80;
                extra.push(f); // x = 0 with the sign bit set
            }
            // non-canonical y: y + p fits when y < 19
            if p.y.0 < U256::from_u64(19) {
                for sign in [0u8, 0x80] {
                    let mut f = p.y.0.wrapping_add(&fp::p()).to_le();
                    f[31] |= sign;
                    if Aff::decompress(&f).is_some() && !v.contains(&f) && !extra.contains(&f) {
                        extra.push(f);
                    }
                }
            }
        }
        v.extend(extra);
        v
    })
}

fn verdict(pk: &[u8; 32], dom: &[u8], m: &[u8], sig: &[u8; 64]) -> bool {
    eddsa::verify(pk, dom, m, sig, crate::mops::eddsa::rule())
}

fn req(pk: &[u8; 32], msg: Vec<u8>, sig: &[u8; 64], ctx: Vec<u8>, has_ctx: bool) -> Req {
    Req::new("sig.verify", vec![pk.to_vec(), msg, sig.to_vec(), ctx, vec![has_ctx as u8]])
}

/// message search: append a counter byte until the (pure) model predicate accepts, at most 24 tries
fn search_msg(pk: &[u8; 32], base: &[u8], mk_sig: &dyn Fn(&[u8]) -> [u8; 64]) -> (Vec<u8>, [u8; 64]) {
    let mut last = (base.to_vec(), mk_sig(base));
    for c in 0u8..24 {
        let mut m = base.to_vec();
        m.push(c);
        let s = mk_sig(&m);
        if verdict(pk, &[], &m, &s) {
            return (m, s);
        }
        last = (m, s);
    }
    last
}

/// mixed-order key A0 + T WITH a small-order, non-identity R that satisfies the cofactorless equation:
/// R = -k*T (the T-component of -k*A), S = k*a0 (so that S*B - k*A = -k*T). Non-strict verification accepts,
/// strict verification must refuse because R has small order although the key is not weak
/// (added after the seeded change C09f: the strict prehashed verifier only refused R = identity).
/// `ph` chooses whether the pure or the prehashed (dom2, context) challenge is the one that is solved.
fn mixed_order_small_r() -> BoxedStrategy<Req> {
    (u256_interesting(), 1usize..8, message(), any::<bool>(), super::c08::context_ok(), any::<bool>()).prop_map(|(seed, t, msg, ph, ctx, has)| {
        let e = eddsa::expand(&seed);
        let a0 = Sc::from_bytes_mod_order(&e.a_bytes);
        let pk = Aff::decompress(&e.pk).unwrap().add(&torsion()[t]).compress();
        let c: Vec<u8> = if has { ctx.clone() } else { vec![] };
        for j in 0..64u32 {
            let mut m = msg.clone();
            m.extend_from_slice(&j.to_le_bytes());
            for rt in 1..8usize {
                let r_bytes = torsion()[rt].compress();
                let dom: Vec<u8> = if ph { eddsa::dom2(1, &c) } else { vec![] };
                let mh: Vec<u8> = if ph { eddsa::sha512(&[&m]).to_vec() } else { m.clone() };
                let k = Sc::from_bytes_mod_order_wide(&eddsa::sha512(&[&dom, &r_bytes, &pk, &mh]));
                if torsion()[t].mul(&k.0).neg() == torsion()[rt] {
                    let s = k.mul(&a0);
                    let mut sig = [0u8; 64];
                    sig[..32].copy_from_slice(&r_bytes);
                    sig[32..].copy_from_slice(&s.to_bytes());
                    return req(&pk, m, &sig, ctx.clone(), has);
                }
            }
        }
        req(&pk, msg, &[0u8; 64], ctx, has)
    }).boxed()
}

/// the signing key's own verifiers: honest signatures, tampered ones, S + k*l, and the signatures only the key
/// owner can make whose R has small order (R = an encoding of the identity, S = k*a): non-strict accepts the
/// canonical one, strict must refuse (added after the seeded change C09g: SigningKey::verify_strict
/// delegating to the non-strict verifier)
fn signing_key_verifiers() -> BoxedStrategy<Req> {
    let nt = torsion_encodings().len();
    (u256_interesting(), message(), super::c08::context_ok(), any::<bool>(), 0u8..6, 0..nt, any::<bool>()).prop_map(|(seed, m, ctx, has, kind, ir, ph)| {
        let e = eddsa::expand(&seed);
        let c: Vec<u8> = if has { ctx.clone() } else { vec![] };
        let mut sig = if ph { eddsa::sign_ph(&seed, &eddsa::sha512(&[&m]), &c) } else { eddsa::sign(&seed, &m) };
        let mut msg = m.clone();
        match kind {
            0 => {}
            1 => msg.push(7),
            2 => { let s = U256::from_le(&sig[32..].try_into().unwrap()).wrapping_add(&sc::l()); sig[32..].copy_from_slice(&s.to_le()); }
            3 => sig[5] ^= 4,
            _ => {
                // small-order R (every encoding of every torsion point), S = k * a
                let r = torsion_encodings()[ir];
                let dom: Vec<u8> = if ph { eddsa::dom2(1, &c) } else { vec![] };
                let mh: Vec<u8> = if ph { eddsa::sha512(&[&m]).to_vec() } else { m.clone() };
                let k = Sc::from_bytes_mod_order_wide(&eddsa::sha512(&[&dom, &r, &e.pk, &mh]));
                let s = k.mul(&Sc::from_bytes_mod_order(&e.a_bytes));
                sig[..32].copy_from_slice(&r);
                sig[32..].copy_from_slice(&s.to_bytes());
            }
        }
        Req::new("sig.verify_sk", vec![seed.to_vec(), msg, sig.to_vec(), ctx, vec![has as u8]])
    }).boxed()
}

pub fn strategy() -> BoxedStrategy<Req> {
    let nt = torsion_encodings().len();
    prop_oneof![
        3 => signing_key_verifiers(),
        // hazmat::raw_verify with a pass-through context digest: the challenge k is chosen (see c15::chosen_k)
        2 => super::c15::chosen_k(),
        // the identity as the key (k*A = O for every k): (R = [S]B, S) is a VALID signature on every message for
        // ANY canonical S - the only way to put a chosen S, e.g. one in [2^252, l), into an accepted signature
        // without forging (added after the seeded change C08g: a pre-check that refused S with bit 252 set)
        2 => (prop_oneof![3 => scalar_canonical(), 2 => (0u64..1000).prop_map(|d| Sc::from_u64(d + 1).neg().to_bytes()), 2 => (0u64..1000).prop_map(|d| Sc::from_u256(&U256::ONE.shl(252)).add(&Sc::from_u64(d)).to_bytes())], message(), 0usize..2, any::<bool>(), super::c08::context_ok())
            .prop_map(|(s, m, enc, has, ctx)| {
                let ids: Vec<[u8; 32]> = torsion_encodings().iter().filter(|e| Aff::decompress(e).unwrap().is_identity()).cloned().collect();
                let a = ids[enc % ids.len()];
                let mut sig = [0u8; 64];
                sig[..32].copy_from_slice(&Aff::basepoint().mul(&U256::from_le(&s)).compress());
                sig[32..].copy_from_slice(&s);
                req(&a, m, &sig, ctx, has)
            }),
        1 => byte_pairs(prop_oneof![2 => edwards_encoding().prop_map(|(_, e)| e), 1 => (0..torsion_encodings().len()).prop_map(|i| torsion_encodings()[i])].boxed()).prop_map(|(a, b)| Req::new("sig.key_eq", vec![a.to_vec(), b.to_vec()])),
        3 => mixed_order_small_r(),
        // honest
        2 => (u256_interesting(), message()).prop_map(|(seed, m)| { let e = eddsa::expand(&seed); let s = eddsa::sign(&seed, &m); req(&e.pk, m, &s, vec![], false) }),
        // S + k*l, S = l, high bits
        4 => (u256_interesting(), message(), 0u8..20).prop_map(|(seed, m, k)| {
            let e = eddsa::expand(&seed);
            let mut s = eddsa::sign(&seed, &m);
            let sv = U256::from_le(&s[32..].try_into().unwrap());
            let nv = match k {
                0..=14 => { let mut t = sv; let mut ok = true; for _ in 0..=k { let (x, c) = t.add_c(&sc::l()); if c { ok = false; break; } t = x; } if ok { t } else { sv.wrapping_add(&sc::l()) } }
                15 => sc::l(),
                16 => sv.wrapping_add(&U256::ONE.shl(255)),
                17 => sv.wrapping_add(&U256::ONE.shl(254)),
                18 => sv.wrapping_add(&U256::ONE.shl(253)),
                _ => U256::ONE.shl(253).wrapping_sub(&U256::ONE),
            };
            s[32..].copy_from_slice(&nv.to_le());
            req(&e.pk, m, &s, vec![], false)
        }),
        // small-order A and R in every encoding, S = 0 or small, message searched
        5 => (0..nt, 0..nt, 0u64..3, message()).prop_map(|(ia, ir, sv, base)| {
            let a = torsion_encodings()[ia];
            let r = torsion_encodings()[ir];
            let mk = move |_m: &[u8]| { let mut s = [0u8; 64]; s[..32].copy_from_slice(&r); s[32] = sv as u8; s };
            let (m, s) = search_msg(&a, &base, &mk);
            req(&a, m, &s, vec![], false)
        }),
        // honest key, small-order R: S = k*a so that [S]B - [k]A = O ... accepted iff R encodes the identity canonically
        2 => (u256_interesting(), 0..nt, message()).prop_map(|(seed, ir, m)| {
            let e = eddsa::expand(&seed);
            let r = torsion_encodings()[ir];
            let k = Sc::from_bytes_mod_order_wide(&eddsa::sha512(&[&r, &e.pk, &m]));
            let s_val = k.mul(&Sc::from_bytes_mod_order(&e.a_bytes));
            let mut s = [0u8; 64];
            s[..32].copy_from_slice(&r);
            s[32..].copy_from_slice(&s_val.to_bytes());
            req(&e.pk, m, &s, vec![], false)
        }),
        // mixed-order key A0 + T, honest signing with the scalar of A0, message searched for k*T = O
        5 => (u256_interesting(), 1usize..8, message(), 0usize..8).prop_map(|(seed, t, base, tr)| {
            let e = eddsa::expand(&seed);
            let a0 = Aff::decompress(&e.pk).unwrap();
            let pk = a0.add(&torsion()[t]).compress();
            let a = Sc::from_bytes_mod_order(&e.a_bytes);
            let prefix = e.prefix;
            let mk = move |m: &[u8]| {
                let r = Sc::from_bytes_mod_order_wide(&eddsa::sha512(&[&prefix, m]));
                // R optionally carries torsion too
                let rr = Aff::basepoint().mul(&r.0).add(&torsion()[tr % 8 * (tr / 6)]).compress();
                let k = Sc::from_bytes_mod_order_wide(&eddsa::sha512(&[&rr, &pk, m]));
                let s = r.add(&k.mul(&a));
                let mut sig = [0u8; 64];
                sig[..32].copy_from_slice(&rr);
                sig[32..].copy_from_slice(&s.to_bytes());
                sig
            };
            let (m, s) = search_msg(&pk, &base, &mk);
            req(&pk, m, &s, vec![], false)
        }),
        // R undecodable / non-canonical encodings
        2 => (u256_interesting(), message(), edwards_encoding()).prop_map(|(seed, m, (_, renc))| {
            let e = eddsa::expand(&seed);
            let mut s = eddsa::sign(&seed, &m);
            s[..32].copy_from_slice(&renc);
            req(&e.pk, m, &s, vec![], false)
        }),
        // A undecodable / non-canonical / arbitrary
        3 => (edwards_encoding(), message(), u512_interesting()).prop_map(|((_, a), m, s)| req(&a, m, &s, vec![], false)),
        2 => (noncanonical_y(), message(), u256_interesting(), 0u64..2).prop_map(|(a, m, r, sv)| { let mut s = [0u8; 64]; s[..32].copy_from_slice(&point_from_y(&r).compress()); s[32] = sv as u8; req(&a, m, &s, vec![], false) }),
        // prehashed honest and tampered-context
        3 => (u256_interesting(), message(), super::c08::context_ok(), any::<bool>(), 0u8..3).prop_map(|(seed, m, ctx, has, tamper)| {
            let e = eddsa::expand(&seed);
            let c: &[u8] = if has { &ctx } else { &[] };
            let mut s = eddsa::sign_ph(&seed, &eddsa::sha512(&[&m]), c);
            let mut cx = ctx.clone();
            match tamper { 1 => { let sv = U256::from_le(&s[32..].try_into().unwrap()).wrapping_add(&sc::l()); s[32..].copy_from_slice(&sv.to_le()); } 2 => { cx.push(0); if cx.len() > 255 { cx.truncate(3); } } _ => {} }
            req(&e.pk, m, &s, cx, has)
        }),
        // garbage
        1 => (any::<[u8; 32]>(), message(), u512_interesting()).prop_map(|(a, m, s)| req(&a, m, &s, vec![], false)),
    ].boxed()
}

pub fn classify(r: &Req, resp: &Resp) -> Vec<&'static str> {
    let mut l = vec![];
    if r.op == "tot.verify_chosen_k" {
        return if *resp == Resp::Ok(vec![1]) { vec!["chosen-challenge", "chosen-challenge-accepted"] } else { vec!["chosen-challenge"] };
    }
    if r.op == "sig.key_eq" {
        return if r.a[0] != r.a[1] && *resp != Resp::Rej { vec!["key-equality-on-distinct-encodings"] } else { vec![] };
    }
    let mut pk: [u8; 32] = r.a[0][..].try_into().unwrap();
    if r.op == "sig.verify_sk" {
        pk = eddsa::expand(&pk).pk;
        l.push("signing-key-verifiers");
    }
    let sig: [u8; 64] = r.a[2][..].try_into().unwrap();
    let s = U256::from_le(&sig[32..].try_into().unwrap());
    if s >= sc::l() {
        l.push("S>=l");
    }
    match Aff::decompress(&pk) {
        None => l.push("A-undecodable"),
        Some(a) => {
            if a.is_small_order() { l.push("A-small-order"); } else if !a.is_torsion_free() { l.push("A-mixed-order"); }
            let mut c = pk; c[31] &= 0x7f;
            if U256::from_le(&c) >= fp::p() || (a.x.is_zero() && pk[31] >> 7 == 1) { l.push("A-non-canonical-encoding"); }
        }
    }
    match Aff::decompress(&sig[..32].try_into().unwrap()) {
        None => l.push("R-undecodable"),
        Some(rp) => {
            if rp.is_small_order() { l.push("R-small-order"); } else if !rp.is_torsion_free() { l.push("R-mixed-order"); }
            let mut c: [u8; 32] = sig[..32].try_into().unwrap(); c[31] &= 0x7f;
            if U256::from_le(&c) >= fp::p() || (rp.x.is_zero() && sig[31] >> 7 == 1) { l.push("R-non-canonical-encoding"); }
        }
    }
    if !r.a[3].is_empty() || r.a[4][0] & 1 == 1 { l.push("prehash-context"); }
    if let Resp::Ok(b) = resp {
        if b.iter().take(7).any(|x| *x == 1) && !l.is_empty() { l.push("adversarial-accepted-by-some-verifier"); }
        if b.len() >= 2 && b[0] == 1 && b[1] == 0 { l.push("strict-differs-from-plain"); }
    }
    let _ = (Fp::ZERO, SCheck::Canonical);
    l
}

pub const RULE: &str = "adversarial (key, message, signature) triples built with the model: honest; S replaced by S+k*l / l / high bits; keys and R equal to each of the 8 torsion points in every accepted encoding (canonical, non-canonical y, sign bit on x=0) with the message searched until the cofactorless equation holds; honest key with small-order R; mixed-order keys A0+T (and R+T) signed with the scalar of A0 with the message searched for k*T=O; R or A undecodable / non-canonical / arbitrary; prehashed with contexts; garbage ; the verifiers offered by the signing key itself (verify, verify_strict, Verifier, verify_prehashed) on honest / tampered / S+l signatures and on owner-made signatures with small-order R - each sent through all eight verification entry points (verify, verify_strict, raw_verify, verify_prehashed(_strict), raw_verify_prehashed, Context::verify_digest, DigestVerifier); oracle = the documented predicate on the integer model, both directions, per entry point, with the legacy S rule in the legacy build; non-trivial = S>=l, A or R small/mixed order, undecodable or non-canonically encoded, or a prehash/context case";

pub fn checks(tier: Tier) -> Vec<Check> {
    vec![Check {
        name: "C09.verify-model".into(),
        strategy: strategy(),
        cases: tier.scale(12_000, 15),
        exec: Box::new(crate::ops::exec),
        oracle: Box::new(crate::mops::oracle),
        classify: Box::new(classify),
        rule: RULE,
        exhaustive: false,
        enumerate: None,
    }]
}
