//! C06: Ristretto is the prime-order ristretto255 group with canonical encoding (RFC 9496).
use super::Tier;
use crate::gens::*;
use crate::model::big::U256;
use crate::model::ed::Aff;
use crate::model::fp::{self, Fp};
use crate::model::rist;
use crate::req::{Req, Resp};
use crate::runner::Check;
use proptest::collection::vec;
use proptest::prelude::*;

/// a valid group element, as its canonical encoding
pub fn element() -> BoxedStrategy<B32> {
    let np = pool().pts.len();
    prop_oneof![
        4 => (0..np).prop_map(|i| rist::encode(&pool().pts[i].1)),
        1 => Just(rist::encode(&Aff::IDENTITY)),
        3 => u512_interesting().prop_map(|b| rist::encode(&rist::from_uniform_bytes(&b))),
        2 => u256_interesting().prop_map(|y| rist::encode(&point_from_y(&y).dbl())),
    ].boxed()
}

/// 32-byte strings by decoder class
pub fn encoding() -> BoxedStrategy<B32> {
    prop_oneof![
        3 => element(),
        // bit 255 set on a valid encoding
        1 => element().prop_map(|mut e| { e[31] |= 0x80; e }),
        // s + p (non-canonical) where it fits in 255 bits: s < 19
        1 => (0u64..19, any::<bool>()).prop_map(|(k, hi)| { let mut b = fp::p().wrapping_add(&U256::from_u64(k)).to_le(); if hi { b[31] |= 0x80; } b }),
        // negative s: p - s for a valid s
        1 => element().prop_map(|e| Fp::from_bytes(&e).neg().to_bytes()),
        // random even / odd s below p: non-square, negative t, or valid
        4 => any::<B32>().prop_map(|mut b| { b[31] &= 0x7f; let v = Fp::from_bytes(&b); let v = if v.is_neg() { v.neg() } else { v }; v.to_bytes() }),
        2 => u256_interesting(),
        // s = 0, 1, p-1 (y = 0), 2
        1 => (0usize..5).prop_map(|i| [Fp::ZERO, Fp::ONE, Fp::ONE.neg(), Fp::from_u64(2), Fp::from_u64(2).neg()][i].to_bytes()),
    ].boxed()
}

/// special r for the one-way map: 0, +-1, sqrt(-1), and preimages r0 of r = i*r0^2 hitting D = 0
/// (r = -d, r = -1/d), in either half, in non-canonical / high-bit variants
pub fn map_input() -> BoxedStrategy<B64> {
    let specials = || -> BoxedStrategy<B32> {
        prop_oneof![
            3 => u256_interesting(),
            1 => Just(Fp::ZERO.to_bytes()),
            1 => Just(Fp::ONE.to_bytes()),
            1 => Just(Fp::ONE.neg().to_bytes()),
            1 => Just(Fp::sqrt_m1().to_bytes()),
            2 => (0usize..4, any::<bool>()).prop_map(|(i, hi)| {
                let d = fp::d();
                let im = Fp::sqrt_m1();
                // r = i r0^2 = -d  =>  r0^2 = -d / i ; r = -1/d => r0^2 = -1/(d i)
                let targets = [d.neg().div(&im), d.inv().neg().div(&im)];
                let t = targets[i % 2];
                let r0 = t.sqrt().map(|r| if i >= 2 { r.neg() } else { r }).unwrap_or(Fp::ZERO);
                let mut b = r0.to_bytes();
                if hi { b[31] |= 0x80; }
                b
            }),
        ].boxed()
    };
    (specials(), specials()).prop_map(|(a, b)| join64(&a, &b)).boxed()
}

fn registers() -> BoxedStrategy<Vec<u8>> {
    (vec(element(), 6), vec((0u8..4, 0usize..6), 0..3)).prop_map(|(mut e, rel)| {
        for (kind, i) in rel {
            let j = (i + 1) % 6;
            match kind {
                0 => e[j] = e[i],
                1 => e[j] = rist::encode(&rist::decode(&e[i]).unwrap().neg()),
                _ => {}
            }
        }
        let mut o = vec![];
        for x in e {
            o.extend_from_slice(&x);
        }
        o
    }).boxed()
}

fn cat(v: &[B32]) -> Vec<u8> {
    let mut o = vec![];
    for x in v {
        o.extend_from_slice(x);
    }
    o
}

/// the Ristretto scalar-multiplication wrappers (also part of C04)
pub fn mul_wrappers(tables: bool) -> BoxedStrategy<Req> {
    let mut v: Vec<(u32, BoxedStrategy<Req>)> = vec![
        (2, (scalar_unreduced255(), element()).prop_map(|(s, p)| Req::new("rs.mul", vec![s.to_vec(), p.to_vec()])).boxed()),
        (1, scalar_unreduced255().prop_map(|s| Req::new("rs.mul_base", vec![s.to_vec()])).boxed()),
        (1, (scalar_for_mul(), element(), scalar_for_mul()).prop_map(|(a, p, b)| Req::new("rs.double_base", vec![a.to_vec(), p.to_vec(), b.to_vec()])).boxed()),
        (1, (prop::sample::select(vec![0usize, 1, 2, 3, 8]), 0u8..3).prop_flat_map(|(n, kind)| (Just(kind), vec(scalar_for_mul(), n), vec(element(), n), vec(any::<u8>(), 2)).prop_map(|(kind, s, p, none)| Req::new("rs.msm", vec![vec![kind], if kind == 2 && none[0] & 3 == 0 { vec![none[1]] } else { vec![] }, cat(&s), cat(&p)]))).boxed()),
        (1, (0usize..4, 0u8..3, 0usize..3).prop_flat_map(|(n, variant, nd)| { let nd = if variant == 0 { 0 } else { nd }; (Just(variant), vec(element(), n), vec(scalar_for_mul(), n), vec(scalar_for_mul(), nd), vec(element(), nd)).prop_map(|(variant, sp, ss, ds, dp)| Req::new("rs.precomp", vec![vec![variant], cat(&sp), cat(&ss), cat(&ds), cat(&dp), vec![]])) }).boxed()),
    ];
    if tables {
        v.push((1, (scalar_unreduced255(), element()).prop_map(|(s, p)| Req::new("rs.table", vec![s.to_vec(), p.to_vec()])).boxed()));
    }
    proptest::strategy::Union::new_weighted(v).boxed()
}

pub fn strategy(verif: bool, tables: bool) -> BoxedStrategy<Req> {
    let mut v: Vec<(u32, BoxedStrategy<Req>)> = vec![
        (8, encoding().prop_map(|e| Req::new("rs.decompress", vec![e.to_vec()])).boxed()),
        (4, map_input().prop_map(|b| Req::new("rs.from_uniform", vec![b.to_vec()])).boxed()),
        (1, map_input().prop_map(|b| Req::new("rs.hash_pass", vec![b.to_vec()])).boxed()),
        (1, bytes_any_len().prop_map(|m| Req::new("rs.hash_sha512", vec![m])).boxed()),
        (1, map_input().prop_map(|b| Req::new("rs.random", vec![b.to_vec()])).boxed()),
        (3, (registers(), super::c03::program(16)).prop_map(|(r, p)| Req::new("rs.history", vec![r, p])).boxed()),
        (2, (element(), element()).prop_map(|(x, y)| Req::new("rs.eq", vec![x.to_vec(), y.to_vec()])).boxed()),
        (1, element().prop_map(|x| Req::new("rs.eq", vec![x.to_vec(), x.to_vec()])).boxed()),
        (2, vec(element(), 0..=32).prop_map(|v| Req::new("rs.batch", vec![cat(&v)])).boxed()),
        (2, byte_pairs(encoding()).prop_map(|(a, b)| Req::new("rs.compressed_eq", vec![a.to_vec(), b.to_vec()])).boxed()),
        (1, (0usize..120, vec(element(), 1..5), any::<bool>()).prop_map(|(n, base, same)| { let v: Vec<B32> = (0..n).map(|i| if same { base[0] } else { base[i % base.len()] }).collect(); Req::new("rs.sum_many", vec![cat(&v)]) }).boxed()),
        (1, (33usize..150, element(), element()).prop_map(|(n, p, q)| { let v: Vec<B32> = (0..n).map(|i| if i % 7 == 3 { q } else { p }).collect(); Req::new("rs.batch", vec![cat(&v)]) }).boxed()),
        // batches containing the identity (e f g h = 0)
        (1, (vec(element(), 0..=8), 0usize..9).prop_map(|(mut v, pos)| { let p = pos % (v.len() + 1); v.insert(p, rist::encode(&Aff::IDENTITY)); Req::new("rs.batch", vec![cat(&v)]) }).boxed()),
        (6, mul_wrappers(tables)),
        (1, Just(Req::new("rs.consts", vec![])).boxed()),
    ];
    if verif {
        v.push((4, (element(), 0u8..4).prop_map(|(e, t)| Req::new("rs.reps", vec![e.to_vec(), vec![t]])).boxed()));
        v.push((4, prop_oneof![super::c01::operand(), map_input().prop_map(|b| b[..32].to_vec())].prop_map(|r| Req::new("rs.elligator", vec![r])).boxed()));
    }
    proptest::strategy::Union::new_weighted(v).boxed()
}

pub fn classify(req: &Req, resp: &Resp) -> Vec<&'static str> {
    let mut l = vec![];
    match req.op.as_str() {
        "rs.decompress" => {
            let b: [u8; 32] = req.a[0][..].try_into().unwrap();
            if *resp == Resp::Rej {
                let v = U256::from_le(&b);
                if b[31] >> 7 == 1 {
                    l.push("rejected:bit-255");
                } else if v >= fp::p() {
                    l.push("rejected:s>=p");
                } else if v.bit(0) {
                    l.push("rejected:negative-s");
                } else if b == Fp::ONE.neg().to_bytes() {
                    l.push("rejected:y=0");
                } else {
                    l.push("rejected:non-square-or-negative-t");
                }
            } else if b == [0u8; 32] {
                l.push("identity");
            }
        }
        "rs.from_uniform" | "rs.hash_pass" | "rs.random" => {
            if req.a[0].len() >= 64 {
                let (a, b): ([u8; 32], [u8; 32]) = (req.a[0][..32].try_into().unwrap(), req.a[0][32..64].try_into().unwrap());
                if special32(&a) || special32(&b) {
                    l.push("special-r");
                }
                if a[31] >> 7 == 1 || b[31] >> 7 == 1 {
                    l.push("high-bit-r");
                }
            }
        }
        "rs.reps" => l.push("injected-representative"),
        "rs.elligator" => l.push("elligator-direct"),
        "rs.batch" => {
            if req.a[0].chunks(32).any(|c| c == [0u8; 32]) {
                l.push("batch-with-identity-coset");
            } else if req.a[0].len() > 32 {
                l.push("batch");
            }
        }
        "rs.history" => l.push("history"),
        "rs.eq" => {
            if req.a[0] == req.a[1] {
                l.push("eq-same");
            }
        }
        "rs.mul" | "rs.mul_base" | "rs.table" | "rs.double_base" | "rs.msm" | "rs.precomp" => l.push("scalar-mul-wrapper"),
        _ => {}
    }
    l
}

pub const RULE: &str = "Ristretto decoder on 32-byte strings by class (valid, bit 255, s+p, negative s, non-square / negative t, y=0, special), the one-way map on chosen 64-byte inputs (special r incl. solved-for preimages of the exceptional denominators, high bits), group histories, equality vs encoding equality, double_and_compress_batch incl. identity-coset members, every scalar-multiplication wrapper, and - through the hook - each of the four internal representatives P+T4 and the Elligator map on raw field representations; oracle = RFC 9496 transcription + group-theoretic equality (P1-P2 in E[4]) on the integer model; non-trivial = a rejected-class encoding, an injected representative, special r, a batch with an identity-coset member, a history, or a scalar-mul wrapper";

pub fn checks(tier: Tier) -> Vec<Check> {
    let verif = cfg!(curve25519_dalek_verif);
    vec![Check {
        name: "C06.ristretto-model".into(),
        strategy: strategy(verif, cfg!(feature = "tables")),
        cases: tier.scale(8_000, 40),
        exec: Box::new(crate::ops::exec),
        oracle: Box::new(crate::mops::oracle),
        classify: Box::new(classify),
        rule: RULE,
        exhaustive: false,
        enumerate: None,
    }]
}
