//! C15: untrusted input never panics - decoders and verifiers are total.
use super::Tier;
use crate::gens::*;
use crate::model::fp::{self, Fp};
use crate::req::{Req, Resp};
use crate::runner::Check;
use proptest::collection::vec;
use proptest::prelude::*;

/// r values that hit the exceptional points of the Montgomery Elligator2 map (as hash prefixes)
fn nonspec_input() -> BoxedStrategy<(Vec<u8>, u8)> {
    prop_oneof![
        3 => bytes_any_len().prop_map(|b| (b, 0u8)),
        4 => (u256_interesting(), u256_interesting()).prop_map(|(a, b)| (join64(&a, &b).to_vec(), 1u8)),
        // 1 + 2r^2 = 0 has no solution (-1/2 is a non-square); r = 0, +-1, sqrt(-1), values making d = -A/(1+2r^2) special
        2 => (0usize..6, any::<bool>()).prop_map(|(i, hi)| {
            let a = Fp::from_u64(486662);
            let r = match i {
                0 => Fp::ZERO,
                1 => Fp::ONE,
                2 => Fp::ONE.neg(),
                3 => Fp::sqrt_m1(),
                // d = -1 (u = -1 is the rejected twist point): 1 + 2r^2 = A  =>  r^2 = (A-1)/2
                4 => a.sub(&Fp::ONE).div(&Fp::from_u64(2)).sqrt().unwrap_or(Fp::ZERO),
                // -d - A = -1  =>  d = 1 - A  =>  1 + 2r^2 = -A/(1-A)
                _ => a.neg().div(&Fp::ONE.sub(&a)).sub(&Fp::ONE).div(&Fp::from_u64(2)).sqrt().unwrap_or(Fp::ZERO),
            };
            let mut b = r.to_bytes();
            if hi { b[31] |= 0x80; }
            (b.to_vec(), 1u8)
        }),
    ].boxed()
}

/// (A, R, S) for raw_verify with the pass-through context digest: k = (R + 2^256 A) mod l is chosen.
/// kind 0: k = target with arbitrary S (rejections, incl. S = 0 and k = 0 together: both scalars of the
/// double-base multiplication are zero); kind 1: R = compress(S*B) and the key solved for a special challenge
/// (k = 0: an ACCEPTED signature for every message; k with zero words / single bits / small: a forgery that must be refused).
pub fn chosen_k() -> BoxedStrategy<Req> {
    use crate::model::big::{U256, U512};
    use crate::model::ed::Aff;
    use crate::model::sc::{self, Sc};
    let two256 = || Sc::from_u512(&U512::from_parts(&U256::ZERO, &U256::from_u128(1)));
    let target = prop_oneof![3 => Just(Sc::ZERO), 1 => Just(Sc::ONE), 1 => Just(Sc::ONE.neg()), 1 => scalar_canonical().prop_map(|b| Sc::from_bytes_mod_order(&b))];
    let svals = prop_oneof![3 => Just([0u8; 32]), 3 => scalar_canonical(), 1 => u256_interesting()];
    let reject = (edwards_encoding(), target, svals, 0u64..16, message()).prop_map(move |((_, a), k, s, j, m)| {
        // R = (k - 2^256 A) mod l + j*l, kept below 2^256
        let r0 = k.sub(&Sc::from_u256(&U256::from_le(&a)).mul(&two256()));
        let mut r = r0.0;
        for _ in 0..j {
            let (x, c) = r.add_c(&sc::l());
            if c { break; }
            r = x;
        }
        Req::new("tot.verify_chosen_k", vec![a.to_vec(), r.to_le().to_vec(), s.to_vec(), m])
    });
    // R = [S]B with the key SOLVED so that the challenge is a chosen special value kt: accepted iff kt = 0 (then
    // the key term vanishes); for kt with zero bytes / words, a single bit, small or all-ones values the key term
    // does NOT vanish and the forgery must be refused (seeded change C09i: a "zero challenge" fast path that fired
    // whenever ANY 32-bit word of k was zero)
    let special_k = prop_oneof![
        3 => Just(Sc::ZERO),
        1 => Just(Sc::ONE),
        2 => (0usize..252).prop_map(|i| Sc::from_u256(&U256::ONE.shl(i))),
        2 => (0usize..8, any::<[u8; 32]>()).prop_map(|(w, mut b)| { b[31] &= 0x0f; for i in 0..4 { b[4 * w + i] = 0; } Sc::from_bytes_mod_order(&b) }),
        1 => (0usize..32, any::<[u8; 32]>()).prop_map(|(w, mut b)| { b[31] &= 0x0f; b[w] = 0; Sc::from_bytes_mod_order(&b) }),
        1 => (1u64..1000).prop_map(Sc::from_u64),
    ];
    let accept = (prop_oneof![2 => Just([0u8; 32]), 3 => scalar_canonical()], message(), special_k).prop_map(move |(s, m, kt)| {
        let r = Aff::basepoint().mul(&U256::from_le(&s)).compress();
        // A = (kt - R) / 2^256 mod l + j*l for the first j that is a point encoding
        let a0 = kt.sub(&Sc::from_u256(&U256::from_le(&r))).mul(&two256().inv());
        let mut a = a0.0;
        let mut enc = a.to_le();
        for _ in 0..16 {
            enc = a.to_le();
            if Aff::decompress(&enc).is_some() { break; }
            let (x, c) = a.add_c(&sc::l());
            if c { break; }
            a = x;
        }
        Req::new("tot.verify_chosen_k", vec![enc.to_vec(), r.to_vec(), s.to_vec(), m])
    });
    prop_oneof![2 => reject, 1 => accept].boxed()
}

/// every entry point that consumes untrusted bytes (public API only: runs in release builds)
pub fn strategy(release: bool) -> BoxedStrategy<Req> {
    let mut v: Vec<(u32, BoxedStrategy<Req>)> = vec![
        (6, bytes_any_len().prop_map(|b| Req::new("tot.slices", vec![b])).boxed()),
        (2, prop_oneof![Just(31usize), Just(32), Just(33), Just(63), Just(64), Just(65), Just(0)].prop_flat_map(|n| vec(any::<u8>(), n)).prop_map(|b| Req::new("tot.slices", vec![b])).boxed()),
        (2, edwards_encoding().prop_map(|(_, e)| Req::new("tot.slices", vec![e.to_vec()])).boxed()),
        (4, nonspec_input().prop_map(|(b, k)| Req::new("tot.nonspec_map", vec![b, vec![k]])).boxed()),
        (4, edwards_encoding().prop_map(|(_, e)| Req::new("ed.decompress", vec![e.to_vec()])).boxed()),
        (4, super::c06::encoding().prop_map(|e| Req::new("rs.decompress", vec![e.to_vec()])).boxed()),
        (3, super::c06::map_input().prop_map(|b| Req::new("rs.from_uniform", vec![b.to_vec()])).boxed()),
        (2, bytes_any_len().prop_map(|b| Req::new("rs.hash_pass", vec![b])).boxed()),
        (2, u256_interesting().prop_map(|b| Req::new("sc.canonical", vec![b.to_vec()])).boxed()),
        (1, u256_interesting().prop_map(|b| Req::new("sc.reduce32", vec![b.to_vec()])).boxed()),
        (1, u512_interesting().prop_map(|b| Req::new("sc.reduce64", vec![b.to_vec()])).boxed()),
        (2, bytes_any_len().prop_map(|b| Req::new("sc.hash_pass", vec![b])).boxed()),
        (6, super::c07::strategy().boxed()),
        (8, super::c09::strategy().boxed()),
        (2, super::c13::batch(vec![0, 1, 2, 3, 8]).boxed()),
        // batch with arbitrary (possibly undecodable) keys and garbage signatures
        (2, (0usize..5, vec(any::<u8>(), 0..40), vec(u512_interesting(), 0..5), vec(edwards_encoding(), 0..5)).prop_map(|(n, m, s, k)| {
            let mut mb = vec![];
            for i in 0..n { let mm = &m[..m.len().min(i * 3)]; mb.extend_from_slice(&(mm.len() as u16).to_le_bytes()); mb.extend_from_slice(mm); }
            let mut sb = vec![]; for x in &s { sb.extend_from_slice(x); }
            let mut kb = vec![]; for (_, x) in &k { kb.extend_from_slice(x); }
            Req::new("sig.batch", vec![(n as u16).to_le_bytes().to_vec(), mb, sb, kb, vec![1]])
        }).boxed()),
        (2, u512_interesting().prop_map(|b| Req::new("sig.from_keypair", vec![b.to_vec()])).boxed()),
        (1, (u512_interesting(), message()).prop_map(|(k, m)| Req::new("sig.expanded", vec![k.to_vec(), m])).boxed()),
        (4, super::c16::de_strategy().boxed()),
        (3, super::c16::raw_strategy().boxed()),
        (2, super::c17::encoding_strategy().boxed()),
        (2, chosen_k()),
    ];
    if release {
        v.push((2, (edwards_encoding(), message(), u512_interesting(), prop::sample::select(vec![256usize, 257, 300, 512, 1000]).prop_flat_map(|n| vec(any::<u8>(), n)))
            .prop_map(|((_, a), m, s, c)| Req::new("tot.verify_longctx", vec![a.to_vec(), m, s.to_vec(), c])).boxed()));
    }
    proptest::strategy::Union::new_weighted(v).boxed()
}

pub fn classify(req: &Req, resp: &Resp) -> Vec<&'static str> {
    let mut l = vec![];
    if *resp == Resp::Rej {
        l.push("malformed-reported-as-None/Err");
    }
    match req.op.as_str() {
        "tot.slices" => {
            let n = req.a[0].len();
            if n != 32 && n != 64 { l.push("wrong-length-slice"); } else { l.push("right-length-slice"); }
        }
        "tot.nonspec_map" => l.push(if req.a[1][0] == 1 { "chosen-elligator-input" } else { "hashed-elligator-input" }),
        "tot.verify_longctx" => l.push("over-long-context"),
        "tot.verify_chosen_k" => {
            l.push("chosen-challenge-verification");
            if *resp == Resp::Ok(vec![1]) { l.push("chosen-challenge-k=0-accepted"); }
            if req.a[2].iter().all(|x| *x == 0) { l.push("chosen-challenge-S=0"); }
        }
        "sig.batch" => l.push("batch"),
        "sig.verify" => l.push("verify-arbitrary"),
        "sd.de" | "sd.raw" => l.push("deserialiser"),
        op if op.starts_with("mt.") || op.starts_with("x.") => l.push("montgomery/x25519"),
        _ => {}
    }
    let _ = fp::p;
    l
}

pub const RULE: &str = "every public entry point that consumes untrusted bytes, in release builds (what users run): slice decoders for byte strings of every length 0..100 and longer, array decoders, hash-to-group / hash-to-scalar with SHA-512 and a pass-through digest (chosen r incl. solved-for exceptional inputs of both Elligator maps), X25519 and the Montgomery/Edwards conversions, all verification functions on adversarial and arbitrary triples incl. contexts longer than 255 bytes, batch verification on arbitrary and mismatched input, hazmat::raw_verify with a caller-chosen context digest (chosen challenge k = 0, 1, l-1 with S = 0 or arbitrary, incl. accepted k = 0 signatures), keypair import, the serde deserialisers on structured and raw payloads, GroupEncoding; oracle: never a panic, and None/Err exactly where the models of C03/C06/C07/C09/C13/C16/C17 say malformed; non-trivial = a rejected input, a wrong-length slice, a chosen Elligator input, an over-long context, or an adversarial verification/batch/deserialiser case";

pub fn oracle(req: &Req, got: &Resp) -> Result<(), String> {
    if let Resp::Panic(m) = got {
        return Err(format!("{} panicked on untrusted input: {}", req.op, m));
    }
    if *got == Resp::Unsup {
        return Ok(()); // op not present in this build configuration
    }
    super::oracle_any(req, got)
}

pub fn checks(tier: Tier) -> Vec<Check> {
    let release = !cfg!(debug_assertions);
    vec![Check {
        name: "C15.totality".into(),
        strategy: strategy(release),
        cases: tier.scale(300_000, 8),
        exec: Box::new(crate::ops::exec),
        oracle: Box::new(oracle),
        classify: Box::new(classify),
        rule: RULE,
        exhaustive: false,
        enumerate: None,
    }]
}
