//! C03: Edwards points are on the curve and obey the group law (decoder classes + histories).
use super::Tier;
use crate::gens::*;
use crate::model::ed::Aff;
use crate::req::{Req, Resp};
use crate::runner::Check;
use proptest::collection::vec;
use proptest::prelude::*;

/// six initial registers with exceptional relations between them
pub fn registers() -> BoxedStrategy<Vec<u8>> {
    (vec(edwards_point(), 6), vec((0u8..8, 0usize..6, 0usize..8), 0..4)).prop_map(|(pts, rel)| {
        let mut p: Vec<Aff> = pts.iter().map(|(_, e)| Aff::decompress(e).unwrap()).collect();
        // impose relations: r[j] = -r[i], r[j] = r[i], r[j] = r[i] + T
        for (kind, i, t) in rel {
            let j = (i + 1) % 6;
            p[j] = match kind {
                0 | 1 => p[i].neg(),
                2 => p[i],
                3 | 4 => p[i].add(&torsion()[t]),
                5 => p[i].neg().add(&torsion()[t]),
                _ => p[j],
            };
        }
        let mut o = vec![];
        for q in p {
            o.extend_from_slice(&q.compress());
        }
        o
    }).boxed()
}

/// long sums: independent points, or P repeated / alternating P, -P / P, P+T (related summands)
pub fn sum_many() -> BoxedStrategy<Req> {
    (0usize..120, 0u8..4, vec(edwards_point(), 1..6)).prop_map(|(n, kind, base)| {
        let mut b = vec![];
        for i in 0..n {
            let mut e = base[i % base.len()].1;
            match kind {
                1 => e = base[0].1,
                2 => { e = base[0].1; if i % 2 == 1 { e[31] ^= 0x80; } }
                _ => {}
            }
            b.extend_from_slice(&e);
        }
        Req::new("ed.sum_many", vec![b])
    }).boxed()
}

pub fn program(maxlen: usize) -> BoxedStrategy<Vec<u8>> {
    vec((0u8..16, any::<u8>(), any::<u8>(), any::<u8>()), 1..=maxlen).prop_map(|v| {
        let mut o = vec![];
        for (a, b, c, d) in v {
            o.extend_from_slice(&[a, b, c, d]);
        }
        o
    }).boxed()
}

pub fn decoder_labels(req: &Req, resp: &Resp) -> Vec<&'static str> {
    let b: [u8; 32] = req.a[0][..].try_into().unwrap();
    let mut l = vec![];
    let mut c = b;
    c[31] &= 0x7f;
    if crate::model::big::U256::from_le(&c) >= crate::model::fp::p() {
        l.push("non-canonical-y");
    }
    if *resp == Resp::Rej {
        l.push("rejected");
    }
    if let Some(p) = Aff::decompress(&b) {
        if p.x.is_zero() {
            l.push(if b[31] >> 7 == 1 { "x=0-with-sign-bit" } else { "x=0" });
        }
        if p.is_small_order() {
            l.push("small-order");
        } else if !p.is_torsion_free() {
            l.push("mixed-order");
        }
    }
    if special32(&b) {
        l.push("special-bytes");
    }
    l
}

pub fn history_labels(req: &Req, _resp: &Resp) -> Vec<&'static str> {
    let mut l = vec![];
    if let Some((steps, _)) = crate::mops::edwards::history(&req.a[0], &req.a[1]) {
        let mut regs: Vec<Aff> = (0..6).map(|i| Aff::decompress(&req.a[0][32 * i..32 * i + 32].try_into().unwrap()).unwrap()).collect();
        let (mut cancel, mut dbl, mut tors, mut rt) = (false, false, false, false);
        for (k, ins) in req.a[1].chunks(4).enumerate() {
            let (opc, d, s1, s2) = (ins[0] % 16, ins[1] as usize % 6, ins[2] as usize % 6, ins[3] as usize % 6);
            match opc {
                0 | 13 => {
                    if regs[s1] == regs[s2].neg() && !regs[s1].is_identity() { cancel = true; }
                    if regs[s1] == regs[s2] { dbl = true; }
                    if !regs[s1].is_identity() && regs[s1].sub(&regs[s2]).is_small_order() && regs[s1] != regs[s2] { tors = true; }
                }
                1 | 14 => {
                    if regs[s1] == regs[s2] && !regs[s1].is_identity() { cancel = true; }
                    if regs[s1] == regs[s2].neg() { dbl = true; }
                }
                5 => { if regs[d] == regs[s1].neg() && !regs[d].is_identity() { cancel = true; } if regs[d] == regs[s1] { dbl = true; } }
                6 => { if regs[d] == regs[s1] && !regs[d].is_identity() { cancel = true; } }
                9 => tors = true,
                10 => rt = true,
                _ => {}
            }
            regs[d] = steps[k];
        }
        if cancel { l.push("cancellation P+(-P)"); }
        if dbl { l.push("doubling-through-add"); }
        if tors { l.push("torsion-translate"); }
        if rt { l.push("compress-decompress-roundtrip"); }
        if steps.iter().any(|s| !s.is_torsion_free()) { l.push("torsion-carrying-point"); }
    }
    l
}

/// public-API-only variant of the C03 requests (for the cross-configuration streams)
pub fn public_strategy() -> BoxedStrategy<Req> {
    prop_oneof![
        3 => edwards_encoding().prop_map(|(_, e)| Req::new("ed.decompress", vec![e.to_vec()])),
        2 => (registers(), program(16)).prop_map(|(r, p)| Req::new("ed.history", vec![r, p])),
        1 => sum_many(),
        1 => byte_pairs(edwards_encoding().prop_map(|(_, e)| e).boxed()).prop_map(|(a, b)| Req::new("ed.compressed_eq", vec![a.to_vec(), b.to_vec()])),
    ].boxed()
}

pub const RULE_DEC: &str = "Edwards decoder on 32-byte strings by class (valid points incl. torsion/mixed order, the 2x19 non-canonical y, y=+-1/0 with either sign bit, sign-flipped, off-curve, special bit patterns, uniform); oracle: model square test on (y^2-1)/(dy^2+1), re-compression equals the canonical encoding with the requested sign, coordinates via hook satisfy the curve equation and XY=ZT; non-trivial = non-canonical y, rejected, x=0, small/mixed order or special bit pattern";
pub const RULE_HIST: &str = "histories of 1..40 group operations (add, sub, neg, P+P, cofactor mul, +=, -=, Sum, small scalar, +torsion, compress/decompress, conditional select/assign, identity) over 6 registers initialised from the full group of order 8l with imposed relations (Q=-P, Q=P, Q=P+T); after every step compress() and the hook coordinates are checked against the affine model, at the end the == matrix, is_identity, is_small_order, is_torsion_free; non-trivial = history has a cancellation, a doubling through add, a torsion translate, a round trip or a torsion-carrying point";

pub fn checks(tier: Tier) -> Vec<Check> {
    let verif = cfg!(curve25519_dalek_verif);
    let dec_op = if verif { "ed.decompress_coords" } else { "ed.decompress" };
    let hist_op = if verif { "ed.history_coords" } else { "ed.history" };
    let oracle = move || -> crate::runner::Oracle {
        if verif {
            Box::new(crate::mops::edwards::oracle_coords)
        } else {
            Box::new(crate::mops::oracle)
        }
    };
    vec![
        Check {
            name: "C03.decoder".into(),
            strategy: edwards_encoding().prop_map(move |(_, e)| Req::new(dec_op, vec![e.to_vec()])).boxed(),
            cases: tier.scale(30_000, 30),
            exec: Box::new(crate::ops::exec),
            oracle: oracle(),
            classify: Box::new(decoder_labels),
            rule: RULE_DEC,
            exhaustive: false,
            enumerate: None,
        },
        Check {
            name: "C03.histories".into(),
            strategy: (registers(), prop_oneof![3 => program(12), 1 => program(40)]).prop_map(move |(r, p)| Req::new(hist_op, vec![r, p])).boxed(),
            cases: tier.scale(6_000, 20),
            exec: Box::new(crate::ops::exec),
            oracle: oracle(),
            classify: Box::new(history_labels),
            rule: RULE_HIST,
            exhaustive: false,
            enumerate: None,
        },
        Check {
            name: "C03.long-sums".into(),
            strategy: sum_many(),
            cases: tier.scale(1_500, 10),
            exec: Box::new(crate::ops::exec),
            oracle: Box::new(crate::mops::oracle),
            classify: Box::new(|r: &Req, _| { let n = r.a[0].len() / 32; if n >= 16 { vec!["sum-of->=16-points"] } else { vec!["sum"] } }),
            rule: "Sum over 0..120 points (by reference and by value), independent or related summands (P repeated, P/-P alternating); oracle: the affine model's repeated addition",
            exhaustive: false,
            enumerate: None,
        },
        Check {
            name: "C03.compressed-equality".into(),
            strategy: byte_pairs(edwards_encoding().prop_map(|(_, e)| e).boxed()).prop_map(|(a, b)| Req::new("ed.compressed_eq", vec![a.to_vec(), b.to_vec()])).boxed(),
            cases: tier.scale(20_000, 10),
            exec: Box::new(crate::ops::exec),
            oracle: Box::new(crate::mops::oracle),
            classify: Box::new(|r: &Req, _| if r.a[0] != r.a[1] && r.a[0][..31] == r.a[1][..31] { vec!["aliases-differing-in-the-top-byte"] } else { vec!["pair"] }),
            rule: "CompressedEdwardsY ct_eq / == / Hash / is_identity are defined on the 32 bytes as given: pairs that are equal, differ only in bit 255, differ by p, differ in one bit, or are unrelated",
            exhaustive: false,
            enumerate: None,
        },
        Check {
            name: "C03.constants".into(),
            strategy: Just(Req::new("ed.consts", vec![])).boxed(),
            cases: 1,
            exec: Box::new(crate::ops::exec),
            oracle: Box::new(crate::mops::oracle),
            classify: Box::new(|_, _| vec!["constants"]),
            rule: "public point constants (basepoint, identity, EIGHT_TORSION[i] = i*T) against the model",
            exhaustive: true,
            enumerate: None,
        },
    ]
}
