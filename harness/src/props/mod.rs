//! Per-property check definitions.
use crate::runner::Check;

pub mod c01;
pub mod c02;
pub mod c03;
pub mod c04;
pub mod c06;
pub mod c07;
pub mod c08;
pub mod c09;
pub mod c11;
pub mod c13;
pub mod c14;
pub mod c15;
pub mod c16;
pub mod c17;
pub mod c12;

#[derive(Clone, Copy, PartialEq, Eq, Debug)]
pub enum Tier {
    Quick,
    Thorough,
}

impl Tier {
    pub fn scale(&self, quick: u32, thorough_factor: u32) -> u32 {
        match self {
            Tier::Quick => quick,
            Tier::Thorough => quick.saturating_mul(thorough_factor),
        }
    }
}

/// All checks of a property for this build configuration.
pub fn checks(id: &str, tier: Tier) -> Option<Vec<Check>> {
    match id {
        "C01" => Some(c01::checks(tier)),
        "C02" => Some(c02::checks(tier)),
        "C03" => Some(c03::checks(tier)),
        "C04" => Some(c04::checks(tier)),
        "C06" => Some(c06::checks(tier)),
        "C07" => Some(c07::checks(tier)),
        "C08" => Some(c08::checks(tier)),
        "C09" => Some(c09::checks(tier)),
        "C11" => Some(c11::checks(tier)),
        "C12" => Some(c12::checks(tier)),
        "C13" => Some(c13::checks(tier)),
        "C14" => Some(c14::checks(tier)),
        "C15" => Some(c15::checks(tier)),
        "C16" => Some(c16::checks(tier)),
        "C17" => Some(c17::checks(tier)),
        _ => None,
    }
}

/// the oracle that applies to any request (dispatch on the op): used by stream-style checks
pub fn oracle_any(req: &crate::req::Req, got: &crate::req::Resp) -> Result<(), String> {
    crate::mops::oracle(req, got)
}

/// labels of any request, by dispatching to the classifier of the property that owns the op
pub fn classify_any(req: &crate::req::Req, resp: &crate::req::Resp) -> Vec<&'static str> {
    let op = req.op.as_str();
    if op.starts_with("sc.") {
        c02::classify(req, resp)
    } else if op == "ed.decompress" {
        c03::decoder_labels(req, resp)
    } else if op == "ed.history" {
        c03::history_labels(req, resp)
    } else if op.starts_with("sm.") {
        c04::classify(req, resp)
    } else if op.starts_with("rs.") {
        c06::classify(req, resp)
    } else if op.starts_with("mt.") || op.starts_with("x.") {
        c07::classify(req, resp)
    } else if op == "sig.verify" || op == "sig.verify_sk" || op == "sig.key_eq" {
        c09::classify(req, resp)
    } else if op == "sig.batch" {
        c13::classify(req, resp)
    } else if op.starts_with("sig.") {
        c08::classify(req, resp)
    } else if op.starts_with("sd.") {
        c16::classify(req, resp)
    } else if op.starts_with("gp.") {
        c17::classify(req, resp)
    } else if op.starts_with("tot.") {
        c15::classify(req, resp)
    } else {
        vec![]
    }
}

pub fn labels32(chunks: &[&[u8]]) -> Vec<&'static str> {
    use crate::gens::*;
    let mut v = vec![];
    let mut seen = [false; 4];
    for c in chunks {
        if c.len() != 32 {
            continue;
        }
        let b: [u8; 32] = (*c).try_into().unwrap();
        if !seen[0] && near_multiple_of_l(&b) {
            seen[0] = true;
            v.push("near-multiple-of-l");
        }
        if !seen[1] && near_pow2(&b) {
            seen[1] = true;
            v.push("near-power-of-two");
        }
        if !seen[2] && has_all_ones_limb(&b) {
            seen[2] = true;
            v.push("all-ones-limb");
        }
        if !seen[3] && field_edge(&b) {
            seen[3] = true;
            v.push("field-edge");
        }
    }
    v
}
