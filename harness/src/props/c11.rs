//! C11: no limb overflow - checked builds never panic, documented bounds are re-established, and
//! results do not depend on the (admissible) representation.
use super::c01;
use super::Tier;
use crate::gens::*;
use crate::layout::{fe_layout, FeLayout};
use crate::model::fp::{self, Fp};
use crate::req::{Req, Resp};
use crate::runner::Check;
use proptest::collection::vec;
use proptest::prelude::*;

/// layout whose admissible range is the *stored-coordinate* bound (what reducing kernels guarantee)
fn stored_layout() -> FeLayout {
    let mut l = fe_layout();
    l.max_admissible = l.max_reduced.clone();
    l
}

/// one coordinate: a representation at the stored bound of a generated or chosen value
fn coord() -> BoxedStrategy<Vec<u8>> {
    let lay = stored_layout();
    let l2 = lay.clone();
    let l3 = lay.clone();
    prop_oneof![
        6 => c01::limbs_within(&lay).prop_map(move |l| l2.encode(&l)),
        2 => u256_interesting().prop_map(move |b| l3.encode(&top_up(&l3, &Fp::from_bytes(&b)))),
        1 => u256_interesting().prop_map(|b| b.to_vec()),
    ].boxed()
}

/// representation of v with every limb as large as the stored bound allows: canonical limbs, then
/// add p limb-wise where that still fits
fn top_up(lay: &FeLayout, v: &Fp) -> Vec<u64> {
    let mut l = lay.canonical_limbs(v);
    let pl = lay.canonical_limbs_of_u256(&fp::p());
    if (0..lay.nlimbs).all(|i| l[i] + pl[i] <= lay.max_reduced[i]) {
        for i in 0..lay.nlimbs {
            l[i] += pl[i];
        }
    }
    l
}

fn enc_at_bound(v: &Fp) -> Vec<u8> {
    let lay = stored_layout();
    lay.encode(&top_up(&lay, v))
}

/// eight coordinates; mode "saturate" solves Q so that the products inside the addition formula
/// are -1 (all-ones limbs after reduction): PP = MM = ZZ = TT2d = -1
fn coords8() -> BoxedStrategy<Vec<Vec<u8>>> {
    prop_oneof![
        5 => vec(coord(), 8),
        2 => (vec(coord(), 4), 0u64..4).prop_map(|p: (Vec<Vec<u8>>, u64)| {
            let (p, k) = p;
            let lay = stored_layout();
            let val = |x: &Vec<u8>| lay.operand_value(x).unwrap();
            let (x1, y1, z1, t1) = (val(&p[0]), val(&p[1]), val(&p[2]), val(&p[3]));
            let target = Fp::from_u64(1 + k).neg(); // -1, -2, -3, -4
            let a = target.div(&y1.add(&x1)); // Y2 + X2
            let b = target.div(&y1.sub(&x1)); // Y2 - X2
            let two_inv = Fp::from_u64(2).inv();
            let y2 = a.add(&b).mul(&two_inv);
            let x2 = a.sub(&b).mul(&two_inv);
            let z2 = target.div(&z1);
            let t2 = target.div(&t1.mul(&fp::d().dbl()));
            let mut v = p.clone();
            for c in [x2, y2, z2, t2] {
                v.push(enc_at_bound(&c));
            }
            v
        }),
        // same point twice / negated (exceptional cases of the formulas) at the bound
        1 => vec(coord(), 4).prop_map(|p| { let mut v = p.clone(); v.extend(p); v }),
    ].boxed()
}

pub fn serial_formulas() -> BoxedStrategy<Req> {
    (0u8..20, coords8(), scalar_for_mul(), any::<u8>()).prop_map(|(opc, c, s, k)| {
        let mut a = vec![vec![opc]];
        a.extend(c);
        a.push(if opc == 12 || opc == 19 { s.to_vec() } else { vec![k] });
        Req::new("fz.serial", a)
    }).boxed()
}

fn avx2_stored(b: f64) -> BoxedStrategy<Vec<u8>> {
    let (be, bo) = c01::avx2_bound(b);
    c01::raw_lanes((0..10).map(|j| if j % 2 == 0 { be } else { bo }).collect(), (0..10).map(|j| if j % 2 == 0 { 26 } else { 25 }).collect(), 4)
}
pub fn avx2_formulas() -> BoxedStrategy<Req> {
    // ExtendedPoint: "bounded with b < 0.007"; CachedPoint: b < 0.007, or b < 1.0 after a lazy negation
    (0u8..7, avx2_stored(0.007), prop_oneof![3 => avx2_stored(0.007), 1 => avx2_stored(1.0)], any::<u8>())
        .prop_map(|(opc, e, c, k)| {
            // a lazily negated cached point may only be added/subtracted, not negated again
            Req::new("fz.avx2", vec![vec![opc], e, c, vec![k]])
        })
        .prop_filter("double lazy negation is documented as unsafe", |r| {
            let cached_big = r.a[2].chunks(4).enumerate().any(|(i, c)| { let v = u32::from_le_bytes(c.try_into().unwrap()) as u64; let (be, bo) = c01::avx2_bound(0.007); v >= if (i % 10) % 2 == 0 { be } else { bo } });
            !(cached_big && (r.a[0][0] == 2 || r.a[0][0] == 5))
        }).boxed()
}
pub fn ifma_formulas() -> BoxedStrategy<Req> {
    // F51x4Reduced as produced by the reducing conversion: limbs < 2^51 + 19*2^13 (< 2^51 + 2^18)
    let red = || c01::raw_lanes(vec![(1u64 << 51) + (1 << 18); 5], vec![51; 5], 8);
    (0u8..7, red(), red(), red(), any::<u8>()).prop_map(|(opc, x, y, c, k)| Req::new("fz.ifma", vec![vec![opc], x, y, c, vec![k]])).boxed()
}

pub fn oracle_formula(req: &Req, got: &Resp) -> Result<(), String> {
    match got {
        Resp::Ok(b) if b.len() % 2 == 0 && !b.is_empty() => {
            let (x, y) = b.split_at(b.len() / 2);
            if x == y {
                Ok(())
            } else {
                Err(format!("{} opcode {}: result depends on the representation of the inputs: from representations at the stored bound {} but from canonical representations {}", req.op, req.a[0][0], crate::util::hex(x), crate::util::hex(y)))
            }
        }
        Resp::Rej => Ok(()),
        g => Err(format!("{} opcode {}: {}", req.op, req.a[0][0], g.short())),
    }
}

fn classify_formula(req: &Req, _resp: &Resp) -> Vec<&'static str> {
    let mut l = vec!["coordinates-at-stored-bound"];
    if req.op == "fz.serial" && req.a.len() == 10 {
        let lay = fe_layout();
        let n = 8 * lay.nlimbs;
        if req.a[1..9].iter().all(|x| x.len() == n && lay.decode(x).iter().enumerate().all(|(i, v)| *v as f64 >= 0.99 * (1u64 << lay.widths[i]) as f64)) {
            l.push("every-limb-within-1%-of-bound");
        }
    }
    l
}

pub const RULE: &str = "layer 1: every field kernel of every back end from raw limbs at the documented admissible bound (C01's generators) with, in addition, the documented output bound re-checked on the raw result limbs (u64 < 2^51+2^18, u32 b<0.007, fiat tight, AVX2 reduce/neg b<0.0002, mul/square b<0.007, negate_lazy b<1, diff_sum b<1.6, IFMA reduced < 2^52) and the vector bound monitors armed; layers 2-3: group formulas (add, sub, double, mul_by_pow_2, neg, compress, to_montgomery, ct_eq, Niels conversions and mixed additions, projective doubling, Ristretto compress / ct_eq / batch, both Elligator maps, variable-base and multiscalar multiplication; AVX2 and IFMA double / add / sub / cached conversion / repeated doubling) started from coordinates whose representations sit at the stored-coordinate bound, incl. operands solved for so that the products inside the addition formula are -1..-4, compared with the same formulas on canonical representations (representation independence), no panic, no monitor hit; layer 4: the C05 request stream in each checked build must not panic and must equal the release build of the same back end. Non-trivial = coordinates at the stored bound / kernel operand with a limb >= nominal";

pub fn checks(tier: Tier) -> Vec<Check> {
    let mut v = vec![];
    if !cfg!(curve25519_dalek_verif) || fe_layout().nlimbs == 0 {
        return v;
    }
    v.push(Check {
        name: "C11.serial-kernels-output-bounds".into(),
        strategy: c01::strategy(),
        cases: tier.scale(40_000, 40),
        exec: Box::new(crate::ops::exec),
        oracle: Box::new(|r, g| crate::mops::field::oracle_with(r, g, true)),
        classify: Box::new(c01::classify),
        rule: RULE,
        exhaustive: false,
        enumerate: None,
    });
    v.push(Check {
        name: "C11.serial-formulas-representation-independence".into(),
        strategy: serial_formulas(),
        cases: tier.scale(15_000, 40),
        exec: Box::new(crate::ops::exec),
        oracle: Box::new(oracle_formula),
        classify: Box::new(classify_formula),
        rule: RULE,
        exhaustive: false,
        enumerate: None,
    });
    #[cfg(not(any(curve25519_dalek_backend = "serial", curve25519_dalek_backend = "fiat")))]
    {
        if std::is_x86_feature_detected!("avx2") {
            v.push(Check {
                name: "C11.avx2-kernels-output-bounds".into(),
                strategy: c01::avx2_strategy(),
                cases: tier.scale(40_000, 40),
                exec: Box::new(crate::ops::exec),
                oracle: Box::new(|r, g| crate::mops::vector::oracle_with(r, g, true)),
                classify: Box::new(c01::classify_vec),
                rule: RULE,
                exhaustive: false,
                enumerate: None,
            });
            v.push(Check {
                name: "C11.avx2-formulas-representation-independence".into(),
                strategy: avx2_formulas(),
                cases: tier.scale(20_000, 40),
                exec: Box::new(crate::ops::exec),
                oracle: Box::new(oracle_formula),
                classify: Box::new(classify_formula),
                rule: RULE,
                exhaustive: false,
                enumerate: None,
            });
        }
    }
    #[cfg(curve25519_dalek_backend = "unstable_avx512")]
    {
        if std::is_x86_feature_detected!("avx512ifma") && std::is_x86_feature_detected!("avx512vl") {
            v.push(Check {
                name: "C11.ifma-kernels-output-bounds".into(),
                strategy: c01::ifma_strategy(),
                cases: tier.scale(40_000, 40),
                exec: Box::new(crate::ops::exec),
                oracle: Box::new(|r, g| crate::mops::vector::oracle_with(r, g, true)),
                classify: Box::new(c01::classify_vec),
                rule: RULE,
                exhaustive: false,
                enumerate: None,
            });
            v.push(Check {
                name: "C11.ifma-formulas-representation-independence".into(),
                strategy: ifma_formulas(),
                cases: tier.scale(20_000, 40),
                exec: Box::new(crate::ops::exec),
                oracle: Box::new(oracle_formula),
                classify: Box::new(classify_formula),
                rule: RULE,
                exhaustive: false,
                enumerate: None,
            });
        }
    }
    v
}
