//! C14: secret material is erased on drop and from freed heap buffers.
use super::Tier;
use crate::gens::*;
use crate::model::sc::Sc;
use crate::req::{Req, Resp};
use crate::runner::Check;
use proptest::collection::vec;
use proptest::prelude::*;

/// secret bytes without zero bytes and with varied content ("still there" is then distinguishable from "zeroed")
fn secret32() -> BoxedStrategy<B32> {
    prop_oneof![
        4 => any::<B32>().prop_map(|mut b| { for (i, x) in b.iter_mut().enumerate() { if *x == 0 { *x = 1 + (i as u8 % 200); } } b }),
        1 => u256_interesting().prop_map(|mut b| { for (i, x) in b.iter_mut().enumerate() { if *x == 0 || *x == 0xff { *x = 3 + (7 * i as u8 % 200); } } b }),
    ].boxed()
}
fn secret_scalar() -> BoxedStrategy<B32> {
    secret32().prop_map(|b| { let s = Sc::from_bytes_mod_order(&b); if s.is_zero() { Sc::ONE.to_bytes() } else { s.to_bytes() } }).boxed()
}
fn cat(v: &[B32]) -> Vec<u8> {
    let mut o = vec![];
    for x in v {
        o.extend_from_slice(x);
    }
    o
}

pub fn strategy(backends: Vec<u8>, max_n: usize) -> BoxedStrategy<Req> {
    let be = backends.clone();
    prop_oneof![
        6 => (0u8..2, prop::sample::select(be), prop_oneof![6 => 1usize..=max_n.min(40), 1 => prop::sample::select(vec![63usize, 64, 65, 100, 128, 129, 150]), 1 => 1usize..=max_n]).prop_flat_map(|(kind, force, n)| {
            let pts = if kind == 0 { vec(edwards_point().prop_map(|(_, e)| e), n).boxed() } else { vec(super::c06::element(), n).boxed() };
            (Just(kind), Just(force), vec(secret_scalar(), n), vec(secret_scalar(), n), pts)
                .prop_map(|(kind, force, a, b, p)| Req::new("mem.msm", vec![vec![kind], vec![force], cat(&a), cat(&b), cat(&p)]))
        }),
        4 => prop_oneof![6 => 1usize..=max_n.min(40), 1 => prop::sample::select(vec![63usize, 64, 65, 100, 128, 129, 150]), 1 => 1usize..=max_n].prop_flat_map(|n| (vec(secret_scalar(), n), vec(secret_scalar(), n)).prop_map(|(a, b)| Req::new("mem.batch_invert", vec![cat(&a), cat(&b)]))),
        6 => (0u8..12, secret32(), secret32()).prop_map(|(ty, k, aux)| Req::new("mem.drop", vec![vec![ty], k.to_vec(), aux.to_vec()])),
        3 => (0u8..13, u256_interesting()).prop_flat_map(|(ty, b)| {
            let v: BoxedStrategy<B32> = match ty { 1 | 10 => edwards_point().prop_map(|(_, e)| e).boxed(), 3 => super::c06::element(), _ => Just(b).boxed() };
            v.prop_map(move |x| Req::new("mem.zeroize", vec![vec![ty], x.to_vec()]))
        }),
    ].boxed()
}

pub fn classify(req: &Req, _resp: &Resp) -> Vec<&'static str> {
    match req.op.as_str() {
        "mem.msm" => { if req.a[2].len() >= 64 { vec!["multiscalar-n>=2"] } else { vec!["multiscalar-n=1"] } }
        "mem.batch_invert" => { if req.a[0].len() >= 64 { vec!["batch-invert-n>=2"] } else { vec![] } }
        "mem.drop" => { let t = req.a[0][0] % 6; let mut l = if t <= 1 { vec!["drop-of-composite-secret-type"] } else { vec!["drop-of-secret-bytes-type"] }; if req.a[0][0] >= 6 { l.push("drop-on-the-heap"); } l }
        _ => vec!["explicit-zeroize"],
    }
}

pub const RULE: &str = "create-use-drop sequences of SigningKey, ExpandedSecretKey, EphemeralSecret, ReusableSecret, StaticSecret, SharedSecret built in storage we own (drop_in_place, then the storage bytes are searched; and in a Box whose freed block is snapshotted by the allocator hook, where a non-volatile erasure is optimised away for 8-byte windows of the seed / expanded scalar / hash prefix / shared secret); constant-time multiscalar_mul (Edwards and Ristretto, n = 1..40, serial and vector copy through forced dispatch) and Scalar::batch_invert under an instrumenting global allocator that snapshots every block at dealloc/realloc: the freed contents must be identical for two different secret-scalar vectors (same public points) and contain no 8-byte window of the scalars, their radix-16 digit strings or their partial products; explicit zeroize() of scalars, Edwards / Ristretto / subgroup points (the raw storage must equal that of the identity, all four coordinates), compressed points, Montgomery points, X25519 static / ephemeral / reusable / shared secrets and public keys (raw storage all zero). Secrets have no zero bytes. Non-trivial = n >= 2, or a type whose secret is not its whole storage, or any drop/zeroize case";

pub fn checks(tier: Tier) -> Vec<Check> {
    let backends: Vec<u8> = super::c04::dispatch_choices().iter().map(|(_, k)| *k).collect();
    vec![Check {
        name: "C14.erasure".into(),
        strategy: strategy(backends, if tier == Tier::Quick { 40 } else { 300 }),
        cases: tier.scale(3_000, 20),
        exec: Box::new(crate::ops::exec),
        oracle: Box::new(crate::mops::memory::oracle),
        classify: Box::new(classify),
        rule: RULE,
        exhaustive: false,
        enumerate: None,
    }]
}
