//! C01: field arithmetic is exact arithmetic mod p in every back end (through the hook module).
use super::Tier;
use crate::gens::*;
use crate::layout::{fe_layout, FeLayout};
use crate::model::big::U256;
use crate::model::fp::{self, Fp};
use crate::req::{Req, Resp};
use crate::runner::Check;
use proptest::collection::vec;
use proptest::prelude::*;

/// raw limb vectors inside the documented admissible range of this back end
pub fn limbs_within(lay: &FeLayout) -> BoxedStrategy<Vec<u64>> {
    let lay = lay.clone();
    let n = lay.nlimbs;
    (0u8..12, vec((0u8..12, any::<u64>(), 0u32..64), n)).prop_map(move |(mode, per)| {
        let mut out = vec![0u64; n];
        for i in 0..n {
            let w = lay.widths[i];
            let max = lay.max_admissible[i];
            let nominal = 1u64 << w;
            let (cat, r, k) = per[i];
            let pick = match mode {
                0 => 2,  // every limb at the admissible maximum
                1 => 4,  // every limb all-ones (2^255-1)
                2 => 3,  // every limb just below the maximum
                3 => 7,  // uniform within the headroom
                4 => 8,  // uniform nominal
                _ => cat,
            };
            out[i] = match pick {
                0 => 0,
                1 => 1,
                2 => max,
                3 => max - 1 - (r % 4),
                4 => nominal - 1,
                5 => nominal.min(max),
                6 => nominal - 19,
                7 => r % (max + 1),
                8 => r % nominal,
                9 => (1u64 << (k % 64)).min(max),
                10 => nominal - 1 - (r % 64),
                _ => (nominal + (r % 64)).min(max),
            };
        }
        // p itself / p-1 / 2p-ish in limb form for two of the modes
        if mode == 5 {
            for i in 0..n {
                out[i] = (1u64 << lay.widths[i]) - 1;
            }
            out[0] -= 18; // value p
        }
        if mode == 6 {
            for i in 0..n {
                out[i] = (1u64 << lay.widths[i]) - 1;
            }
            out[0] -= 19; // value p - 1
        }
        out
    }).boxed()
}

/// a representation of a chosen value: canonical limbs + k*p limb-wise (k within the headroom)
pub fn rep_of(lay: &FeLayout, v: &Fp, k: u64) -> Vec<u64> {
    let mut l = lay.canonical_limbs(v);
    let pl = lay.canonical_limbs_of_u256(&fp::p());
    let kmax = (0..lay.nlimbs).map(|i| lay.max_admissible[i] / (1u64 << lay.widths[i])).min().unwrap_or(1).saturating_sub(1);
    let k = k.min(kmax);
    for i in 0..lay.nlimbs {
        l[i] += k * pl[i];
    }
    l
}

impl FeLayout {
    pub fn canonical_limbs_of_u256(&self, v: &U256) -> Vec<u64> {
        (0..self.nlimbs).map(|i| v.shr(self.shifts[i]).low_u64() & ((1u64 << self.widths[i]) - 1)).collect()
    }
}

/// one field operand: 32 bytes (decoded by from_bytes) or raw limbs
pub fn operand() -> BoxedStrategy<Vec<u8>> {
    let lay = fe_layout();
    let l2 = lay.clone();
    let l3 = lay.clone();
    prop_oneof![
        3 => u256_interesting().prop_map(|b| b.to_vec()),
        5 => limbs_within(&lay).prop_map(move |l| l2.encode(&l)),
        3 => (u256_interesting(), 0u64..8).prop_map(move |(b, k)| l3.encode(&rep_of(&l3, &Fp::from_bytes(&b), k))),
    ].boxed()
}

/// re-encode a model value as an operand in a generated representation
fn enc_value(v: &Fp, how: u8, k: u64) -> Vec<u8> {
    let lay = fe_layout();
    match how % 3 {
        0 => v.to_bytes().to_vec(),
        1 => {
            // non-canonical bytes where possible: v + p if it fits below 2^255, and bit 255 set
            let mut b = if v.0 < U256::from_u64(19) { v.0.wrapping_add(&fp::p()).to_le() } else { v.to_bytes() };
            if k & 1 == 1 {
                b[31] |= 0x80;
            }
            b.to_vec()
        }
        _ => lay.encode(&rep_of(&lay, v, k)),
    }
}

fn pair() -> BoxedStrategy<(Vec<u8>, Vec<u8>)> {
    let lay = fe_layout();
    let val = move |x: &Vec<u8>| lay.operand_value(x).unwrap();
    let v1 = val.clone();
    let v2 = val.clone();
    let v3 = val.clone();
    prop_oneof![
        5 => (operand(), operand()),
        1 => operand().prop_map(|x| (x.clone(), x)),
        1 => (operand(), any::<u8>(), 0u64..8).prop_map(move |(x, h, k)| { let v = v1(&x).neg(); (x, enc_value(&v, h, k)) }),
        1 => (operand(), any::<u8>(), 0u64..8).prop_map(move |(x, h, k)| { let v = v2(&x).inv(); (x, enc_value(&v, h, k)) }),
        // y = t / x for boundary targets t (product lands on a special value)
        2 => (operand(), u256_interesting(), any::<u8>(), 0u64..8).prop_map(move |(x, t, h, k)| { let v = Fp::from_bytes(&t).mul(&v3(&x).inv()); (x, enc_value(&v, h, k)) }),
    ].boxed()
}

/// (u, v) for sqrt_ratio_i in each of the four documented cases
fn sqrt_pair() -> BoxedStrategy<(Vec<u8>, Vec<u8>)> {
    let lay = fe_layout();
    let val = move |x: &Vec<u8>| lay.operand_value(x).unwrap();
    let (v1, v2) = (val.clone(), val.clone());
    prop_oneof![
        3 => (operand(), operand()),
        // u = r^2 v : square
        3 => (operand(), operand(), any::<u8>(), 0u64..8).prop_map(move |(r, v, h, k)| { let u = v1(&r).sq().mul(&v1(&v)); (enc_value(&u, h, k), v) }),
        // u = i r^2 v : non-square (unless r or v is 0)
        3 => (operand(), operand(), any::<u8>(), 0u64..8).prop_map(move |(r, v, h, k)| { let u = Fp::sqrt_m1().mul(&v2(&r).sq()).mul(&v2(&v)); (enc_value(&u, h, k), v) }),
        1 => (operand(), any::<u8>(), 0u64..8).prop_map(|(v, h, k)| (enc_value(&Fp::ZERO, h, k), v)),
        1 => (operand(), any::<u8>(), 0u64..8).prop_map(|(u, h, k)| (u, enc_value(&Fp::ZERO, h, k))),
        1 => (any::<u8>(), 0u64..8, any::<u8>(), 0u64..8).prop_map(|(h, k, h2, k2)| (enc_value(&Fp::ZERO, h, k), enc_value(&Fp::ZERO, h2, k2))),
    ].boxed()
}

pub fn strategy() -> BoxedStrategy<Req> {
    prop_oneof![
        4 => operand().prop_map(|x| Req::new("fe.id", vec![x])),
        4 => pair().prop_map(|(x, y)| Req::new("fe.add", vec![x, y])),
        5 => pair().prop_map(|(x, y)| Req::new("fe.sub", vec![x, y])),
        8 => pair().prop_map(|(x, y)| Req::new("fe.mul", vec![x, y])),
        3 => operand().prop_map(|x| Req::new("fe.neg", vec![x])),
        5 => operand().prop_map(|x| Req::new("fe.square", vec![x])),
        3 => operand().prop_map(|x| Req::new("fe.square2", vec![x])),
        2 => (operand(), prop_oneof![1u32..6, 1u32..=300]).prop_map(|(x, k)| Req::new("fe.pow2k", vec![x, k.to_le_bytes().to_vec()])),
        2 => operand().prop_map(|x| Req::new("fe.invert", vec![x])),
        1 => vec(operand(), 0..=16).prop_map(|v| Req::new("fe.batch_invert", v)),
        1 => (vec(operand(), 0..=63), 0usize..64, any::<u8>(), 0u64..8).prop_map(|(mut v, pos, h, k)| { let p = pos % (v.len() + 1); v.insert(p, enc_value(&Fp::ZERO, h, k)); Req::new("fe.batch_invert", v) }),
        4 => sqrt_pair().prop_map(|(u, v)| Req::new("fe.sqrt_ratio_i", vec![u, v])),
        1 => operand().prop_map(|x| Req::new("fe.invsqrt", vec![x])),
        2 => operand().prop_map(|x| Req::new("fe.preds", vec![x])),
        2 => pair().prop_map(|(x, y)| Req::new("fe.eq", vec![x, y])),
        // same value, two representations
        1 => (u256_interesting(), any::<u8>(), 0u64..8, any::<u8>(), 0u64..8).prop_map(|(b, h1, k1, h2, k2)| { let v = Fp::from_bytes(&b); Req::new("fe.eq", vec![enc_value(&v, h1, k1), enc_value(&v, h2, k2)]) }),
        2 => (pair(), any::<u8>()).prop_map(|((x, y), c)| Req::new("fe.cond", vec![x, y, vec![c]])),
    ].boxed()
}

pub fn classify(req: &Req, resp: &Resp) -> Vec<&'static str> {
    let lay = fe_layout();
    let mut l = vec![];
    let mut over = false;
    let mut edge = false;
    let mut ones = false;
    let mut atmax = false;
    for x in &req.a {
        if x.len() == 32 {
            let b: [u8; 32] = x[..].try_into().unwrap();
            let mut c = b;
            c[31] &= 0x7f;
            if U256::from_le(&c) >= fp::p() || b[31] & 0x80 != 0 {
                edge = true;
            }
            if has_all_ones_limb(&b) {
                ones = true;
            }
        } else if lay.nlimbs > 0 && x.len() == 8 * lay.nlimbs {
            let limbs = lay.decode(x);
            for (i, v) in limbs.iter().enumerate() {
                if *v >= (1u64 << lay.widths[i]) {
                    over = true;
                }
                if *v == (1u64 << lay.widths[i]) - 1 {
                    ones = true;
                }
            }
            if limbs.iter().enumerate().all(|(i, v)| *v as f64 >= 0.99 * lay.max_admissible[i] as f64) {
                atmax = true;
            }
        }
    }
    if over {
        l.push("limb>=nominal");
    }
    if atmax {
        l.push("all-limbs-at-headroom");
    }
    if edge {
        l.push("non-canonical-bytes");
    }
    if ones {
        l.push("all-ones-limb");
    }
    if let Resp::Ok(b) = resp {
        // results within 2^16 of 0 or p
        let n = b.len();
        let mut off = n % 32; // flags first (approximation: flags are < 32 bytes)
        if req.op == "fe.preds" || req.op == "fe.eq" {
            off = n;
        }
        let nres = match crate::mops::field::expected(&req.op, &req.a) { Some((_, k)) => k, None => 0 };
        let _ = off;
        let nflags = n.saturating_sub(nres * (32 + 8 * lay.nlimbs));
        for i in 0..nres {
            let c: [u8; 32] = b[nflags + 32 * i..nflags + 32 * i + 32].try_into().unwrap();
            let v = U256::from_le(&c);
            if v.bits() <= 16 || fp::p().wrapping_sub(&v).bits() <= 16 {
                l.push("result-near-0-or-p");
                break;
            }
        }
    }
    l
}

pub const RULE: &str = "field operations through the guarded hook on the serial FieldElement of each build; operands are 32-byte strings (special values, non-canonical, bit 255) or raw limb vectors inside the documented headroom (u64: limbs < 2^54; u32: b < 1.75; fiat: tight bounds), including all-limbs-at-bound, value-p, and k*p-shifted representations of chosen values; pairs include y=x, y=-x, y=1/x, solved-for products, and the four sqrt_ratio_i cases; non-trivial = an operand has a limb >= its nominal size, or non-canonical bytes (value >= p or bit 255), or an all-ones limb, or a result within 2^16 of 0 or p";

pub fn checks(tier: Tier) -> Vec<Check> {
    if fe_layout().nlimbs == 0 {
        return vec![];
    }
    let mut v = vector_checks(tier);
    // batch inversion far beyond the sizes the group code uses: lengths around 2^10, 2^12, 2^16, 2^17 (a block
    // size of a chunked implementation is not visible from outside: seeded change C01h, blocks of 2^16)
    let long_batches: Vec<Req> = [1025usize, 4097, 65537, 70001, 131073].iter().map(|n| {
        Req::new("fe.batch_invert", (0..*n).map(|i| enc_value(&Fp::from_u64([2u64, 3, 5, 0, 7][i % 5]), 0, 0)).collect())
    }).collect();
    v.insert(0, Check {
        name: "C01.batch-invert-long".into(),
        strategy: Just(Req::new("fe.batch_invert", vec![])).boxed(),
        cases: 0,
        exec: Box::new(crate::ops::exec),
        oracle: Box::new(crate::mops::field::oracle),
        classify: Box::new(|r: &Req, _: &Resp| if r.a.len() > 65536 { vec!["batch-longer-than-2^16"] } else { vec!["long-batch"] }),
        rule: "FieldElement::batch_invert on 1025 .. 131073 elements (a few repeated values incl. zeros) against per-element model inverses",
        exhaustive: true,
        enumerate: Some(long_batches),
    });
    v.insert(0, Check {
        name: "C01.serial-field-model".into(),
        strategy: strategy(),
        cases: tier.scale(40_000, 50),
        exec: Box::new(crate::ops::exec),
        oracle: Box::new(crate::mops::field::oracle),
        classify: Box::new(classify),
        rule: RULE,
        exhaustive: false,
            enumerate: None,
    });
    v
}

// ------------------------------------------------------------------------------------
// 4-lane vector field types (AVX2, IFMA)
// ------------------------------------------------------------------------------------

/// exclusive limb bounds (even/26-bit, odd/25-bit) for excess b
pub fn avx2_bound(b: f64) -> (u64, u64) {
    ((2f64.powf(26.0 + b)).ceil() as u64, (2f64.powf(25.0 + b)).ceil() as u64)
}

/// raw lanes (4 x nlimbs) with per-limb exclusive bounds `bounds[j]` and nominal widths `widths[j]`
pub fn raw_lanes(bounds: Vec<u64>, widths: Vec<usize>, limb_bytes: usize) -> BoxedStrategy<Vec<u8>> {
    let n = bounds.len();
    (0u8..10, vec((0u8..10, any::<u64>(), 0u32..64), 4 * n), 0usize..4).prop_map(move |(mode, per, hot)| {
        let mut o = vec![];
        for lane in 0..4 {
            for j in 0..n {
                let max = bounds[j] - 1;
                let nominal = 1u64 << widths[j];
                let (cat, r, k) = per[lane * n + j];
                let pick = match mode {
                    0 => 2,                                   // every limb of every lane at the bound
                    1 => if lane == hot { 2 } else { 8 },     // one lane at the bound
                    2 => 4,                                   // all-ones limbs
                    3 => 7,
                    4 => 8,
                    _ => cat,
                };
                let v = match pick {
                    0 => 0,
                    1 => 1,
                    2 => max,
                    3 => max - (r % 4).min(max),
                    4 => (nominal - 1).min(max),
                    5 => nominal.min(max),
                    6 => (nominal - 19).min(max),
                    7 => r % (max + 1),
                    8 => r % nominal.min(max + 1),
                    _ => (1u64 << (k % 64).min(63)).min(max),
                };
                o.extend_from_slice(&v.to_le_bytes()[..limb_bytes]);
            }
        }
        o
    }).boxed()
}

pub fn avx2_lanes(b: f64) -> BoxedStrategy<Vec<u8>> {
    let (be, bo) = avx2_bound(b);
    let bounds: Vec<u64> = (0..10).map(|j| if j % 2 == 0 { be.min(1 << 32) } else { bo.min(1 << 32) }).collect();
    let widths: Vec<usize> = (0..10).map(|j| if j % 2 == 0 { 26 } else { 25 }).collect();
    raw_lanes(bounds, widths, 4)
}
/// Domain of the reducing `Neg`: documented as b < 4.0, but the code computes 16p - x limb-wise, so
/// limbs above the limbs of 16p (2^30-304, 2^29-16, 2^30-16, ...) underflow. That sliver
/// (b in [3.9999996, 4.0)) is recorded in known_findings.json (C01 avx2-neg-documented-bound) and
/// excluded here by construction so that the search continues behind it.
fn avx2_neg_lanes() -> BoxedStrategy<Vec<u8>> {
    let bounds: Vec<u64> = (0..10).map(|j| if j == 0 { (1u64 << 30) - 304 + 1 } else if j % 2 == 0 { (1u64 << 30) - 16 + 1 } else { (1u64 << 29) - 16 + 1 }).collect();
    let widths: Vec<usize> = (0..10).map(|j| if j % 2 == 0 { 26 } else { 25 }).collect();
    raw_lanes(bounds, widths, 4)
}
fn four_bytes() -> BoxedStrategy<Vec<u8>> {
    vec(u256_interesting(), 4).prop_map(|v| { let mut o = vec![]; for x in v { o.extend_from_slice(&x); } o }).boxed()
}
/// AVX2 operand respecting excess bound b: raw lanes, or four encodings through `new`
fn avx2_operand(b: f64) -> BoxedStrategy<Vec<u8>> {
    prop_oneof![5 => avx2_lanes(b), 1 => four_bytes()].boxed()
}
/// constants for Mul<(u32,u32,u32,u32)>: no precondition is documented; the only caller passes
/// (121666, 121666, 2*121666, 2*121665), so the domain is constants below 2^18.
fn small_consts() -> BoxedStrategy<Vec<u8>> {
    vec(prop_oneof![Just(0u32), Just(1), Just(121665), Just(121666), Just(2 * 121666), Just(2 * 121665), Just((1u32 << 18) - 1), 0u32..(1 << 18)], 4)
        .prop_map(|v| { let mut o = vec![]; for x in v { o.extend_from_slice(&x.to_le_bytes()); } o }).boxed()
}

pub fn avx2_strategy() -> BoxedStrategy<Req> {
    let any32 = || avx2_lanes(7.0); // any u32 lanes
    prop_oneof![
        2 => any32().prop_map(|x| Req::new("v2.id", vec![x])),
        2 => four_bytes().prop_map(|x| Req::new("v2.id", vec![x])),
        // new() / splat() from serial field elements in raw, unreduced limb form (limbs up to 2^54)
        4 => vec(operand(), 4).prop_map(|v| Req::new("v2.new", v)),
        1 => operand().prop_map(|x| Req::new("v2.splat_raw", vec![x])),
        1 => u256_interesting().prop_map(|x| Req::new("v2.splat", vec![x.to_vec()])),
        2 => (any32(), 0u8..10).prop_map(|(x, c)| Req::new("v2.shuffle", vec![x, vec![c]])),
        2 => (any32(), any32(), 0u8..8).prop_map(|(x, y, c)| Req::new("v2.blend", vec![x, y, vec![c]])),
        3 => avx2_operand(0.999).prop_map(|x| Req::new("v2.negate_lazy", vec![x])),
        3 => avx2_operand(0.01).prop_map(|x| Req::new("v2.diff_sum", vec![x])),
        3 => any32().prop_map(|x| Req::new("v2.reduce", vec![x])),
        5 => avx2_operand(1.5).prop_map(|x| Req::new("v2.sqnd", vec![x])),
        3 => prop_oneof![5 => avx2_neg_lanes(), 1 => four_bytes()].prop_map(|x| Req::new("v2.neg", vec![x])),
        2 => (avx2_lanes(5.0), avx2_lanes(5.0)).prop_map(|(x, y)| Req::new("v2.add", vec![x, y])),
        3 => (avx2_operand(1.75), small_consts()).prop_map(|(x, c)| Req::new("v2.mul_consts", vec![x, c])),
        8 => (avx2_operand(2.5), avx2_operand(1.75)).prop_map(|(x, y)| Req::new("v2.mul", vec![x, y])),
        1 => (any32(), any32(), any::<u8>()).prop_map(|(x, y, c)| Req::new("v2.cond", vec![x, y, vec![c]])),
    ].boxed()
}

fn ifma_lanes(bound: u64) -> BoxedStrategy<Vec<u8>> {
    raw_lanes(vec![bound; 5], vec![51; 5], 8)
}
pub fn ifma_strategy() -> BoxedStrategy<Req> {
    let anyu = || ifma_lanes(u64::MAX);
    let neg_dom = || prop_oneof![4 => ifma_lanes(36028797018963664), 1 => four_bytes()].boxed();
    let red = || prop_oneof![5 => ifma_lanes(1 << 52), 1 => four_bytes()].boxed();
    prop_oneof![
        2 => anyu().prop_map(|x| Req::new("vi.id", vec![x])),
        1 => four_bytes().prop_map(|x| Req::new("vi.id", vec![x])),
        3 => vec(operand(), 4).prop_map(|v| Req::new("vi.new", v)),
        4 => anyu().prop_map(|x| Req::new("vi.reduce", vec![x])),
        3 => neg_dom().prop_map(|x| Req::new("vi.diff_sum", vec![x])),
        3 => neg_dom().prop_map(|x| Req::new("vi.negate_lazy", vec![x])),
        2 => (anyu(), 0u8..10).prop_map(|(x, c)| Req::new("vi.shuffle", vec![x, vec![c]])),
        2 => (anyu(), anyu(), 0u8..6).prop_map(|(x, y, c)| Req::new("vi.blend", vec![x, y, vec![c]])),
        2 => (ifma_lanes(1 << 63), ifma_lanes(1 << 63)).prop_map(|(x, y)| Req::new("vi.add", vec![x, y])),
        1 => (red(), 0u8..10).prop_map(|(x, c)| Req::new("vi.rshuffle", vec![x, vec![c]])),
        1 => (red(), red(), 0u8..6).prop_map(|(x, y, c)| Req::new("vi.rblend", vec![x, y, vec![c]])),
        6 => red().prop_map(|x| Req::new("vi.square", vec![x])),
        8 => (red(), red()).prop_map(|(x, y)| Req::new("vi.mul", vec![x, y])),
        3 => (red(), small_consts()).prop_map(|(x, c)| Req::new("vi.mul_consts", vec![x, c])),
        3 => red().prop_map(|x| Req::new("vi.neg", vec![x])),
        1 => (red(), red(), any::<u8>()).prop_map(|(x, y, c)| Req::new("vi.cond", vec![x, y, vec![c]])),
    ].boxed()
}

pub fn classify_vec(req: &Req, _resp: &Resp) -> Vec<&'static str> {
    let ifma = req.op.starts_with("vi.");
    let mut over = false;
    let mut ones = false;
    let mut bytes = false;
    let mut big = false;
    for x in &req.a {
        if x.len() == 40 && (req.op.ends_with(".new") || req.op.ends_with("splat_raw")) {
            for c in x.chunks(8) {
                let v = u64::from_le_bytes(c.try_into().unwrap());
                if v >= 1 << 51 { over = true; }
                if v >= 3 << 51 { big = true; }
                if v == (1 << 51) - 1 { ones = true; }
            }
        }
        if x.len() == 160 {
            let (n, lb) = if ifma { (5, 8) } else { (10, 4) };
            for i in 0..4 {
                for j in 0..n {
                    let k = lb * (n * i + j);
                    let mut b = [0u8; 8];
                    b[..lb].copy_from_slice(&x[k..k + lb]);
                    let v = u64::from_le_bytes(b);
                    let w = if ifma { 51 } else if j % 2 == 0 { 26 } else { 25 };
                    if v >= 1 << w {
                        over = true;
                    }
                    if v >= 3 << w {
                        big = true;
                    }
                    if v == (1 << w) - 1 {
                        ones = true;
                    }
                }
            }
        } else if x.len() == 128 {
            bytes = true;
        }
    }
    let mut l = vec![];
    if over { l.push("limb>=nominal"); }
    if big { l.push("limb>=3x-nominal"); }
    if ones { l.push("all-ones-limb"); }
    if bytes { l.push("built-with-new()"); }
    l
}

pub const RULE_VEC: &str = "4-lane vector field types through the guarded hook: raw lanes respecting each method's documented precondition, and new()/splat() from serial field elements given as raw unreduced limbs (AVX2: negate_lazy b<0.999, diff_sum b<0.01, square_and_negate_D b<1.5, Neg b<4.0, Mul lhs b<2.5 / rhs b<1.75, others any u32; IFMA: Reduced limbs < 2^52, negate_lazy/diff_sum limbs below the 16p limbs, others any u64), incl. every limb of every lane at the bound; result lanes are evaluated by the model (sum limb*2^shift mod p) and split().as_bytes() compared with lane-wise integer arithmetic; non-trivial = some limb >= its nominal size, an all-ones limb, or operands built through new() from special byte strings";

pub fn vector_checks(tier: Tier) -> Vec<Check> {
    let mut v = vec![];
    #[cfg(all(curve25519_dalek_verif, not(any(curve25519_dalek_backend = "serial", curve25519_dalek_backend = "fiat"))))]
    {
        if std::is_x86_feature_detected!("avx2") {
            v.push(Check {
                name: "C01.avx2-field-model".into(),
                strategy: avx2_strategy(),
                cases: tier.scale(150_000, 20),
                exec: Box::new(crate::ops::exec),
                oracle: Box::new(crate::mops::vector::oracle),
                classify: Box::new(classify_vec),
                rule: RULE_VEC,
                exhaustive: false,
            enumerate: None,
            });
        }
    }
    #[cfg(all(curve25519_dalek_verif, curve25519_dalek_backend = "unstable_avx512"))]
    {
        if std::is_x86_feature_detected!("avx512ifma") && std::is_x86_feature_detected!("avx512vl") {
            v.push(Check {
                name: "C01.ifma-field-model".into(),
                strategy: ifma_strategy(),
                cases: tier.scale(150_000, 20),
                exec: Box::new(crate::ops::exec),
                oracle: Box::new(crate::mops::vector::oracle),
                classify: Box::new(classify_vec),
                rule: RULE_VEC,
                exhaustive: false,
            enumerate: None,
            });
        }
    }
    let _ = tier;
    v
}
