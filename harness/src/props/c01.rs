//! C01: field arithmetic is exact arithmetic mod p in every back end (through the hook module).
use super::Tier;
use crate::gens::*;
use crate::layout::{fe_layout, FeLayout};
use crate::model::big::U256;
use crate::model::fp::{self, Fp};
use crate::req::{Req, Resp};
use crate::runner::Check;
use proptest::collection::vec;
use proptest::prelude::*;

/// raw limb vectors inside the documented admissible range of this back end
pub fn limbs_within(lay: &FeLayout) -> BoxedStrategy<Vec<u64>> {
    let lay = lay.clone();
    let n = lay.nlimbs;
    (0u8..12, vec((0u8..12, any::<u64>(), 0u32..64), n)).prop_map(move |(mode, per)| {
        let mut out = vec![0u64; n];
        for i in 0..n {
            let w = lay.widths[i];
            let max = lay.max_admissible[i];
            let nominal = 1u64 << w;
            let (cat, r, k) = per[i];
            let pick = match mode {
                0 => 2,  // every limb at the admissible maximum
                1 => 4,  // every limb all-ones (2^255-1)
                2 => 3,  // every limb just below the maximum
                3 => 7,  // uniform within the headroom
                4 => 8,  // uniform nominal
                _ => cat,
            };
            out[i] = match pick {
                0 => 0,
                1 => 1,
                2 => max,
                3 => max - 1 - (r % 4),
                4 => nominal - 1,
                5 => nominal.min(max),
                6 => nominal - 19,
                7 => r % (max + 1),
                8 => r % nominal,
                9 => (1u64 << (k % 64)).min(max),
                10 => nominal - 1 - (r % 64),
                _ => (nominal + (r % 64)).min(max),
            };
        }
        // p itself / p-1 / 2p-ish in limb form for two of the modes
        if mode == 5 {
            for i in 0..n {
                out[i] = (1u64 << lay.widths[i]) - 1;
            }
            out[0] -= 18; // value p
        }
        if mode == 6 {
            for i in 0..n {
                out[i] = (1u64 << lay.widths[i]) - 1;
            }
            out[0] -= 19; // value p - 1
        }
        out
    }).boxed()
}

/// a representation of a chosen value: canonical limbs + k*p limb-wise (k within the headroom)
pub fn rep_of(lay: &FeLayout, v: &Fp, k: u64) -> Vec<u64> {
    let mut l = lay.canonical_limbs(v);
    let pl = lay.canonical_limbs_of_u256(&fp::p());
    let kmax = (0..lay.nlimbs).map(|i| lay.max_admissible[i] / (1u64 << lay.widths[i])).min().unwrap_or(1).saturating_sub(1);
    let k = k.min(kmax);
    for i in 0..lay.nlimbs {
        l[i] += k * pl[i];
    }
    l
}

impl FeLayout {
    pub fn canonical_limbs_of_u256(&self, v: &U256) -> Vec<u64> {
        (0..self.nlimbs).map(|i| v.shr(self.shifts[i]).low_u64() & ((1u64 << self.widths[i]) - 1)).collect()
    }
}

/// one field operand: 32 bytes (decoded by from_bytes) or raw limbs
pub fn operand() -> BoxedStrategy<Vec<u8>> {
    let lay = fe_layout();
    let l2 = lay.clone();
    let l3 = lay.clone();
    prop_oneof![
        3 => u256_interesting().prop_map(|b| b.to_vec()),
        5 => limbs_within(&lay).prop_map(move |l| l2.encode(&l)),
        3 => (u256_interesting(), 0u64..8).prop_map(move |(b, k)| l3.encode(&rep_of(&l3, &Fp::from_bytes(&b), k))),
    ].boxed()
}

/// re-encode a model value as an operand in a generated representation
fn enc_value(v: &Fp, how: u8, k: u64) -> Vec<u8> {
    let lay = fe_layout();
    match how % 3 {
        0 => v.to_bytes().to_vec(),
        1 => {
            // non-canonical bytes where possible: v + p if it fits below 2^255, and bit 255 set
            let mut b = if v.0 < U256::from_u64(19) { v.0.wrapping_add(&fp::p()).to_le() } else { v.to_bytes() };
            if k & 1 == 1 {
                b[31] |= 0x80;
            }
            b.to_vec()
        }
        _ => lay.encode(&rep_of(&lay, v, k)),
    }
}

fn pair() -> BoxedStrategy<(Vec<u8>, Vec<u8>)> {
    let lay = fe_layout();
    let val = move |x: &Vec<u8>| lay.operand_value(x).unwrap();
    let v1 = val.clone();
    let v2 = val.clone();
    let v3 = val.clone();
    prop_oneof![
        5 => (operand(), operand()),
        1 => operand().prop_map(|x| (x.clone(), x)),
        1 => (operand(), any::<u8>(), 0u64..8).prop_map(move |(x, h, k)| { let v = v1(&x).neg(); (x, enc_value(&v, h, k)) }),
        1 => (operand(), any::<u8>(), 0u64..8).prop_map(move |(x, h, k)| { let v = v2(&x).inv(); (x, enc_value(&v, h, k)) }),
        // y = t / x for boundary targets t (product lands on a special value)
        2 => (operand(), u256_interesting(), any::<u8>(), 0u64..8).prop_map(move |(x, t, h, k)| { let v = Fp::from_bytes(&t).mul(&v3(&x).inv()); (x, enc_value(&v, h, k)) }),
    ].boxed()
}

/// (u, v) for sqrt_ratio_i in each of the four documented cases
fn sqrt_pair() -> BoxedStrategy<(Vec<u8>, Vec<u8>)> {
    let lay = fe_layout();
    let val = move |x: &Vec<u8>| lay.operand_value(x).unwrap();
    let (v1, v2) = (val.clone(), val.clone());
    prop_oneof![
        3 => (operand(), operand()),
        // u = r^2 v : square
        3 => (operand(), operand(), any::<u8>(), 0u64..8).prop_map(move |(r, v, h, k)| { let u = v1(&r).sq().mul(&v1(&v)); (enc_value(&u, h, k), v) }),
        // u = i r^2 v : non-square (unless r or v is 0)
        3 => (operand(), operand(), any::<u8>(), 0u64..8).prop_map(move |(r, v, h, k)| { let u = Fp::sqrt_m1().mul(&v2(&r).sq()).mul(&v2(&v)); (enc_value(&u, h, k), v) }),
        1 => (operand(), any::<u8>(), 0u64..8).prop_map(|(v, h, k)| (enc_value(&Fp::ZERO, h, k), v)),
        1 => (operand(), any::<u8>(), 0u64..8).prop_map(|(u, h, k)| (u, enc_value(&Fp::ZERO, h, k))),
        1 => (any::<u8>(), 0u64..8, any::<u8>(), 0u64..8).prop_map(|(h, k, h2, k2)| (enc_value(&Fp::ZERO, h, k), enc_value(&Fp::ZERO, h2, k2))),
    ].boxed()
}

pub fn strategy() -> BoxedStrategy<Req> {
    prop_oneof![
        4 => operand().prop_map(|x| Req::new("fe.id", vec![x])),
        4 => pair().prop_map(|(x, y)| Req::new("fe.add", vec![x, y])),
        5 => pair().prop_map(|(x, y)| Req::new("fe.sub", vec![x, y])),
        8 => pair().prop_map(|(x, y)| Req::new("fe.mul", vec![x, y])),
        3 => operand().prop_map(|x| Req::new("fe.neg", vec![x])),
        5 => operand().prop_map(|x| Req::new("fe.square", vec![x])),
        3 => operand().prop_map(|x| Req::new("fe.square2", vec![x])),
        2 => (operand(), prop_oneof![1u32..6, 1u32..=300]).prop_map(|(x, k)| Req::new("fe.pow2k", vec![x, k.to_le_bytes().to_vec()])),
        2 => operand().prop_map(|x| Req::new("fe.invert", vec![x])),
        1 => vec(operand(), 0..=16).prop_map(|v| Req::new("fe.batch_invert", v)),
        1 => (vec(operand(), 0..=63), 0usize..64, any::<u8>(), 0u64..8).prop_map(|(mut v, pos, h, k)| { let p = pos % (v.len() + 1); v.insert(p, enc_value(&Fp::ZERO, h, k)); Req::new("fe.batch_invert", v) }),
        4 => sqrt_pair().prop_map(|(u, v)| Req::new("fe.sqrt_ratio_i", vec![u, v])),
        1 => operand().prop_map(|x| Req::new("fe.invsqrt", vec![x])),
        2 => operand().prop_map(|x| Req::new("fe.preds", vec![x])),
        2 => pair().prop_map(|(x, y)| Req::new("fe.eq", vec![x, y])),
        // same value, two representations
        1 => (u256_interesting(), any::<u8>(), 0u64..8, any::<u8>(), 0u64..8).prop_map(|(b, h1, k1, h2, k2)| { let v = Fp::from_bytes(&b); Req::new("fe.eq", vec![enc_value(&v, h1, k1), enc_value(&v, h2, k2)]) }),
        2 => (pair(), any::<u8>()).prop_map(|((x, y), c)| Req::new("fe.cond", vec![x, y, vec![c]])),
    ].boxed()
}

pub fn classify(req: &Req, resp: &Resp) -> Vec<&'static str> {
    let lay = fe_layout();
    let mut l = vec![];
    let mut over = false;
    let mut edge = false;
    let mut ones = false;
    let mut atmax = false;
    for x in &req.a {
        if x.len() == 32 {
            let b: [u8; 32] = x[..].try_into().unwrap();
            let mut c = b;
            c[31] &= 0x7f;
            if U256::from_le(&c) >= fp::p() || b[31] & 0x80 != 0 {
                edge = true;
            }
            if has_all_ones_limb(&b) {
                ones = true;
            }
        } else if lay.nlimbs > 0 && x.len() == 8 * lay.nlimbs {
            let limbs = lay.decode(x);
            for (i, v) in limbs.iter().enumerate() {
                if *v >= (1u64 << lay.widths[i]) {
                    over = true;
                }
                if *v == (1u64 << lay.widths[i]) - 1 {
                    ones = true;
                }
            }
            if limbs.iter().enumerate().all(|(i, v)| *v as f64 >= 0.99 * lay.max_admissible[i] as f64) {
                atmax = true;
            }
        }
    }
    if over {
        l.push("limb>=nominal");
    }
    if atmax {
        l.push("all-limbs-at-headroom");
    }
    if edge {
        l.push("non-canonical-bytes");
    }
    if ones {
        l.push("all-ones-limb");
    }
    if let Resp::Ok(b) = resp {
        // results within 2^16 of 0 or p
        let n = b.len();
        let mut off = n % 32; // flags first (approximation: flags are < 32 bytes)
        if req.op == "fe.preds" || req.op == "fe.eq" {
            off = n;
        }
        let nres = match crate::mops::field::expected(&req.op, &req.a) { Some((_, k)) => k, None => 0 };
        let _ = off;
        let nflags = n.saturating_sub(nres * (32 + 8 * lay.nlimbs));
        for i in 0..nres {
            let c: [u8; 32] = b[nflags + 32 * i..nflags + 32 * i + 32].try_into().unwrap();
            let v = U256::from_le(&c);
            if v.bits() <= 16 || fp::p().wrapping_sub(&v).bits() <= 16 {
                l.push("result-near-0-or-p");
                break;
            }
        }
    }
    l
}

pub const RULE: &str = "field operations through the guarded hook on the serial FieldElement of each build; operands are 32-byte strings (special values, non-canonical, bit 255) or raw limb vectors inside the documented headroom (u64: limbs < 2^54; u32: b < 1.75; fiat: tight bounds), including all-limbs-at-bound, value-p, and k*p-shifted representations of chosen values; pairs include y=x, y=-x, y=1/x, solved-for products, and the four sqrt_ratio_i cases; non-trivial = an operand has a limb >= its nominal size, or non-canonical bytes (value >= p or bit 255), or an all-ones limb, or a result within 2^16 of 0 or p";

pub fn checks(tier: Tier) -> Vec<Check> {
    if fe_layout().nlimbs == 0 {
        return vec![];
    }
    vec![Check {
        name: "C01.serial-field-model".into(),
        strategy: strategy(),
        cases: tier.scale(40_000, 50),
        exec: Box::new(crate::ops::exec),
        oracle: Box::new(crate::mops::field::oracle),
        classify: Box::new(classify),
        rule: RULE,
        exhaustive: false,
    }]
}
