//! C17: ff/group trait implementations agree with the inherent API and the axioms.
use super::Tier;
use crate::gens::*;
use crate::model::sc::Sc;
use crate::req::{Req, Resp};
use crate::runner::Check;
use proptest::prelude::*;

/// encodings offered to the GroupEncoding impls
pub fn encoding_strategy() -> BoxedStrategy<Req> {
    prop_oneof![
        3 => edwards_encoding().prop_map(|(_, e)| Req::new("gp.ed_encoding", vec![e.to_vec()])),
        2 => edwards_point().prop_map(|(_, e)| Req::new("gp.ed_encoding", vec![e.to_vec()])),
        3 => super::c06::encoding().prop_map(|e| Req::new("gp.rs_encoding", vec![e.to_vec()])),
    ].boxed()
}

fn torsion_free_point() -> BoxedStrategy<B32> {
    let np = pool().pts.len();
    prop_oneof![
        3 => (0..np).prop_map(|i| pool().pts[i].1.compress()),
        1 => Just(crate::model::ed::Aff::IDENTITY.compress()),
        2 => u256_interesting().prop_map(|y| point_from_y(&y).mul8().compress()),
        // occasionally a point with torsion: must be refused by SubgroupPoint::from_bytes
        1 => edwards_point().prop_map(|(_, e)| e),
    ].boxed()
}

pub fn strategy() -> BoxedStrategy<Req> {
    prop_oneof![
        6 => scalar_canonical().prop_map(|s| Req::new("gp.field", vec![s.to_vec()])),
        // squares and non-squares on purpose: x = r^2 and x = 2 r^2 (2 is a non-residue mod l)
        3 => (scalar_canonical(), any::<bool>()).prop_map(|(r, ns)| { let r = Sc::from_canonical(&r).unwrap(); let x = if ns { r.mul(&r).mul(&Sc::from_u64(2)) } else { r.mul(&r) }; Req::new("gp.field", vec![x.to_bytes().to_vec()]) }),
        4 => (scalar_canonical(), scalar_canonical()).prop_map(|(n, d)| Req::new("gp.sqrt_ratio", vec![n.to_vec(), d.to_vec()])),
        2 => (scalar_canonical(), scalar_nonzero(), any::<bool>()).prop_map(|(r, d, ns)| { let (r, d) = (Sc::from_canonical(&r).unwrap(), Sc::from_canonical(&d).unwrap()); let n = r.mul(&r).mul(&d).mul(&if ns { Sc::from_u64(2) } else { Sc::ONE }); Req::new("gp.sqrt_ratio", vec![n.to_bytes().to_vec(), d.to_bytes().to_vec()]) }),
        1 => (scalar_canonical(), 0u8..3).prop_map(|(x, z)| { let zero = Sc::ZERO.to_bytes().to_vec(); match z { 0 => Req::new("gp.sqrt_ratio", vec![zero.clone(), x.to_vec()]), 1 => Req::new("gp.sqrt_ratio", vec![x.to_vec(), zero.clone()]), _ => Req::new("gp.sqrt_ratio", vec![zero.clone(), zero]) } }),
        4 => u256_interesting().prop_map(|b| Req::new("gp.from_repr", vec![b.to_vec()])),
        2 => scalar_canonical().prop_map(|b| Req::new("gp.from_repr", vec![b.to_vec()])),
        1 => (scalar_canonical(), 0u8..3).prop_map(|(mut b, k)| { b[31] |= [0x80u8, 0x40, 0x10][k as usize]; Req::new("gp.from_repr", vec![b.to_vec()]) }),
        2 => u512_interesting().prop_map(|b| Req::new("gp.from_uniform", vec![b.to_vec()])),
        3 => super::c06::map_input().prop_map(|b| Req::new("gp.rs_group", vec![b.to_vec()])),
        1 => u512_interesting().prop_map(|b| Req::new("gp.random", vec![b.to_vec()])),
        1 => Just(Req::new("gp.consts", vec![])),
        2 => (scalar_canonical(), prop_oneof![any::<[u8; 16]>(), Just([0u8; 16]), Just([0xffu8; 16]), (0u8..=255).prop_map(|x| { let mut v = [0u8; 16]; v[0] = x; v })]).prop_map(|(s, v)| Req::new("gp.scalar_extras", vec![s.to_vec(), v.to_vec()])),
        3 => (edwards_point(), edwards_point(), any::<u8>(), any::<bool>()).prop_map(|((_, p), (_, q), c, same)| Req::new("gp.point_extras", vec![p.to_vec(), if same { p.to_vec() } else { q.to_vec() }, vec![c]])),
        // RNG streams: k undecodable / identity / zero chunks, then usable ones
        2 => (proptest::collection::vec(prop_oneof![Just([0u8; 32]), Just({ let mut x = [0u8; 32]; x[0] = 1; x }), edwards_encoding().prop_map(|(_, e)| e), any::<[u8; 32]>()], 0..4), edwards_point(), any::<[u8; 32]>()).prop_map(|(pre, (_, p), tail)| {
            let mut d = vec![];
            for c in pre { d.extend_from_slice(&c); }
            // one chunk is guaranteed to decode to a non-identity point (rejection sampling must terminate)
            let p = if p == crate::model::ed::Aff::IDENTITY.compress() || (p[0] == 1 && p[1..31].iter().all(|x| *x == 0) && p[31] & 0x7f == 0) { crate::model::ed::Aff::basepoint().compress() } else { p };
            d.extend_from_slice(&p);
            d.extend_from_slice(&tail);
            Req::new("gp.random_points", vec![d])
        }),
        6 => encoding_strategy(),
        4 => edwards_point().prop_map(|(_, e)| Req::new("gp.cofactor", vec![e.to_vec()])),
        3 => (torsion_free_point(), torsion_free_point(), scalar_canonical()).prop_map(|(p, q, s)| Req::new("gp.subgroup_ops", vec![p.to_vec(), q.to_vec(), s.to_vec()])),
    ].boxed()
}

pub fn classify(req: &Req, resp: &Resp) -> Vec<&'static str> {
    let mut l = vec![];
    match (req.op.as_str(), resp) {
        ("gp.field", Resp::Ok(b)) => {
            if b[0] == 0 { l.push("non-residue"); }
            if b[33] == 0 { l.push("zero"); }
        }
        ("gp.sqrt_ratio", Resp::Ok(b)) => {
            if b[0] == 0 { l.push("non-square-ratio-or-zero-div"); }
            if req.a[0].iter().all(|x| *x == 0) || req.a[1].iter().all(|x| *x == 0) { l.push("zero"); }
        }
        ("gp.from_repr", Resp::Ok(b)) => { if b[0] == 0 { l.push("non-canonical-repr"); } }
        ("gp.ed_encoding", Resp::Ok(b)) => {
            if b[0] == 0 { l.push("undecodable"); } else if b[66] == 0 { l.push("torsion-carrying-point-refused-by-subgroup"); }
        }
        ("gp.rs_encoding", Resp::Ok(b)) => { if b[0] == 0 { l.push("undecodable"); } }
        ("gp.rs_group", Resp::Ok(_)) => l.push("ristretto-identity-with-torsion-representative"),
        ("gp.cofactor", Resp::Ok(b)) => { if b[32] == 0 { l.push("torsion-carrying-point"); } }
        ("gp.subgroup_ops", Resp::Rej) => l.push("torsion-carrying-point-refused-by-subgroup"),
        ("gp.subgroup_ops", _) => l.push("subgroup-operators"),
        ("gp.consts", _) => l.push("constants"),
        _ => {}
    }
    l
}

pub const RULE: &str = "scalars (structured, plus constructed squares r^2 and non-squares 2r^2), sqrt_ratio pairs in each documented case, 32-byte reprs around l and with high bits, 64-byte uniform inputs, the advertised constants, all Edwards / Ristretto encoding classes through GroupEncoding (EdwardsPoint, SubgroupPoint, RistrettoPoint), points with known torsion component through CofactorGroup, SubgroupPoint operators against the Edwards model; oracles: Legendre symbol of the model for sqrt, ff 0.13's sqrt_ratio contract (root sign and G_S left unspecified but G_S one fixed non-square), from_repr iff < l, defining relations of the constants, decompress/compress, torsion component 0 for the subgroup, [8]P; non-trivial = non-residue, zero, non-canonical repr, undecodable or torsion-carrying point, subgroup operators, constants";

pub fn checks(tier: Tier) -> Vec<Check> {
    vec![Check {
        name: "C17.group-traits".into(),
        strategy: strategy(),
        cases: tier.scale(200_000, 8),
        exec: Box::new(crate::ops::exec),
        oracle: Box::new(crate::mops::group_ops::oracle),
        classify: Box::new(classify),
        rule: RULE,
        exhaustive: false,
        enumerate: None,
    }]
}
