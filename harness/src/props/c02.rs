//! C02: scalar arithmetic is exact arithmetic mod l with canonical output (public API only).
use super::Tier;
use crate::gens::*;
use crate::model::sc::Sc;
use crate::req::{Req, Resp};
use crate::runner::Check;
use proptest::collection::vec;
use proptest::prelude::*;

fn req1(op: &'static str, a: Vec<u8>) -> Req {
    Req::new(op, vec![a])
}

/// pairs of canonical scalars with algebraic relations
fn pair() -> BoxedStrategy<(B32, B32)> {
    prop_oneof![
        4 => (scalar_canonical(), scalar_canonical()),
        1 => scalar_canonical().prop_map(|a| (a, a)),
        1 => scalar_canonical().prop_map(|a| (a, Sc::from_canonical(&a).unwrap().neg().to_bytes())),
        1 => scalar_nonzero().prop_map(|a| (a, Sc::from_canonical(&a).unwrap().inv().to_bytes())),
        // products solved for: b = t / a for a boundary target t
        3 => (scalar_nonzero(), scalar_canonical()).prop_map(|(a, t)| {
            let aa = Sc::from_canonical(&a).unwrap();
            let tt = Sc::from_canonical(&t).unwrap();
            (a, tt.mul(&aa.inv()).to_bytes())
        }),
        // sums / differences solved for: b = t - a, b = a - t
        2 => (scalar_canonical(), scalar_canonical()).prop_map(|(a, t)| {
            let aa = Sc::from_canonical(&a).unwrap();
            let tt = Sc::from_canonical(&t).unwrap();
            (a, tt.sub(&aa).to_bytes())
        }),
    ]
    .boxed()
}

pub fn strategy() -> BoxedStrategy<Req> {
    prop_oneof![
        6 => u256_interesting().prop_map(|b| req1("sc.reduce32", b.to_vec())),
        6 => u512_interesting().prop_map(|b| req1("sc.reduce64", b.to_vec())),
        3 => u256_interesting().prop_map(|b| req1("sc.canonical", b.to_vec())),
        2 => scalar_canonical().prop_map(|b| req1("sc.canonical", b.to_vec())),
        // l + small, and canonical value with bit 255 / high bits set
        2 => (scalar_canonical(), 0u8..4).prop_map(|(mut b, k)| { b[31] |= [0x80u8, 0x40, 0x20, 0x10][k as usize]; req1("sc.canonical", b.to_vec()) }),
        1 => bytes_any_len().prop_map(|m| req1("sc.hash_sha512", m)),
        2 => u512_interesting().prop_map(|b| req1("sc.hash_pass", b.to_vec())),
        1 => bytes_any_len().prop_map(|m| req1("sc.hash_pass", m)),
        1 => u512_interesting().prop_map(|b| req1("sc.random", b.to_vec())),
        2 => (prop::sample::select(vec![1u8, 2, 4, 8, 16]), prop_oneof![any::<[u8; 16]>(), Just([0xffu8; 16]), Just([0u8; 16]), (0usize..128).prop_map(|k| { let mut x = [0u8; 16]; x[k / 8] = 1 << (k % 8); x }), (0usize..128).prop_map(|k| { let mut x = [0xffu8; 16]; x[k / 8] ^= 1 << (k % 8); x })])
            .prop_map(|(w, v)| Req::new("sc.from_uint", vec![vec![w], v.to_vec()])),
        6 => pair().prop_map(|(a, b)| Req::new("sc.add", vec![a.to_vec(), b.to_vec()])),
        6 => pair().prop_map(|(a, b)| Req::new("sc.sub", vec![a.to_vec(), b.to_vec()])),
        8 => pair().prop_map(|(a, b)| Req::new("sc.mul", vec![a.to_vec(), b.to_vec()])),
        2 => scalar_canonical().prop_map(|a| req1("sc.neg", a.to_vec())),
        2 => vec(scalar_canonical(), 0..9).prop_map(|v| Req::new("sc.sum", v.iter().map(|x| x.to_vec()).collect())),
        2 => vec(scalar_canonical(), 0..9).prop_map(|v| Req::new("sc.product", v.iter().map(|x| x.to_vec()).collect())),
        // long collections, and collections whose terms are all just below l (-1, -2, ..): an accumulator with
        // deferred reduction overflows only there (seeded change C02e: 16 terms near l)
        1 => vec(scalar_canonical(), 9..80).prop_map(|v| Req::new("sc.sum", v.iter().map(|x| x.to_vec()).collect())),
        1 => vec(scalar_canonical(), 9..40).prop_map(|v| Req::new("sc.product", v.iter().map(|x| x.to_vec()).collect())),
        2 => (1usize..80, 0u8..3, 1u64..1000, any::<bool>()).prop_map(|(n, kind, base, prod)| {
            let v: Vec<Vec<u8>> = (0..n).map(|i| match kind {
                0 => Sc::ONE.neg(),
                1 => Sc::from_u64(base + i as u64).neg(),
                _ => if i % 2 == 0 { Sc::from_u64(base).neg() } else { Sc::from_u64(base) },
            }.to_bytes().to_vec()).collect();
            Req::new(if prod { "sc.product" } else { "sc.sum" }, v)
        }),
        3 => scalar_nonzero().prop_map(|a| req1("sc.invert", a.to_vec())),
        2 => vec(scalar_nonzero(), 0..=32).prop_map(|v| Req::new("sc.batch_invert", v.iter().map(|x| x.to_vec()).collect())),
        1 => vec(scalar_nonzero(), 33..300).prop_map(|v| Req::new("sc.batch_invert", v.iter().map(|x| x.to_vec()).collect())),
        // duplicates / 1 / l-1 in a batch
        1 => (scalar_nonzero(), 1usize..8).prop_map(|(a, n)| { let mut v = vec![a.to_vec(); n]; v.push(Sc::ONE.to_bytes().to_vec()); v.push(Sc::ONE.neg().to_bytes().to_vec()); Req::new("sc.batch_invert", v) }),
        1 => pair().prop_map(|(a, b)| Req::new("sc.eq", vec![a.to_vec(), b.to_vec()])),
        1 => (pair(), any::<u8>()).prop_map(|((a, b), c)| Req::new("sc.cond_select", vec![a.to_vec(), b.to_vec(), vec![c]])),
        1 => Just(Req::new("sc.consts", vec![])),
        1 => u256_interesting().prop_map(|b| req1("sc.from_bits", b.to_vec())),
        1 => u256_interesting().prop_map(|b| req1("sc.clamp", b.to_vec())),
    ]
    .boxed()
}

pub fn classify(req: &Req, resp: &Resp) -> Vec<&'static str> {
    let mut chunks: Vec<&[u8]> = vec![];
    for x in &req.a {
        if x.len() == 32 {
            chunks.push(x);
        } else if x.len() == 64 {
            chunks.push(&x[..32]);
            chunks.push(&x[32..]);
        }
    }
    if let Resp::Ok(b) = resp {
        if b.len() % 32 == 0 {
            for c in b.chunks(32) {
                chunks.push(c);
            }
        }
    }
    let mut l = super::labels32(&chunks);
    l.retain(|x| *x != "field-edge");
    if (req.op == "sc.reduce64" || req.op == "sc.hash_pass" || req.op == "sc.random") && req.a[0].len() == 64 && req.a[0][32..].iter().any(|x| *x != 0) {
        l.push("wide-input>=2^256");
    }
    if *resp == Resp::Rej {
        l.push("rejected-encoding");
    }
    l
}

pub const RULE: &str = "requests drawn from a weighted union over every public scalar constructor/operator with structured operands (special values +-delta, k*l+-d, limb patterns, solved-for products/sums); non-trivial = some 32-byte operand/input half/result is within 2^16 of a multiple of l or of a power of two, or has an all-ones 52/29-bit limb, or a wide input >= 2^256, or a rejected candidate encoding; distinct = distinct request (op+args) hash";

pub fn checks(tier: Tier) -> Vec<Check> {
    vec![Check {
        name: "C02.scalar-model".into(),
        strategy: strategy(),
        cases: tier.scale(600_000, 10),
        exec: Box::new(crate::ops::exec),
        oracle: Box::new(crate::mops::oracle),
        classify: Box::new(classify),
        rule: RULE,
        exhaustive: false,
            enumerate: None,
    }]
}
