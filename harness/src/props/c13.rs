//! C13: batch verification agrees with single verification and is deterministic.
use super::Tier;
use crate::gens::*;
use crate::model::big::U256;
use crate::model::eddsa;
use crate::model::sc::{self, Sc};
use crate::req::{Req, Resp};
use crate::runner::Check;
use proptest::collection::vec;
use proptest::prelude::*;
use std::sync::OnceLock;

#[derive(Clone)]
pub struct Entry {
    pub pk: [u8; 32],
    pub msg: Vec<u8>,
    pub sig: [u8; 64],
    /// the key's secret scalar (for corruptions only the key owner can make)
    pub a: Sc,
}

/// a deterministic pool of honest (key, message, signature) entries (torsion-free canonical keys and R)
pub fn honest_pool() -> &'static Vec<Entry> {
    static P: OnceLock<Vec<Entry>> = OnceLock::new();
    P.get_or_init(|| {
        let mut v = vec![];
        let mut seed = [7u8; 32];
        for i in 0..300usize {
            seed = eddsa::sha512(&[&seed])[..32].try_into().unwrap();
            if i % 3 == 2 {
                // several messages under the same key
                seed = v.last().map(|_: &Entry| seed).unwrap();
            }
            let len = [0usize, 1, 5, 32, 63, 64, 65, 100, 200][i % 9];
            let msg: Vec<u8> = (0..len).map(|j| (i * 31 + j * 7) as u8).collect();
            let key_seed = if i % 3 == 2 { pool_seed(i - 1) } else { seed };
            let e = eddsa::expand(&key_seed);
            v.push(Entry { pk: e.pk, sig: eddsa::sign(&key_seed, &msg), msg, a: Sc::from_bytes_mod_order(&e.a_bytes) });
            SEEDS.with(|s| s.borrow_mut().push(key_seed));
        }
        v
    })
}
thread_local! { static SEEDS: std::cell::RefCell<Vec<[u8; 32]>> = std::cell::RefCell::new(vec![]); }
fn pool_seed(i: usize) -> [u8; 32] {
    SEEDS.with(|s| s.borrow()[i])
}

fn encode(entries: &[Entry], drop: u8, calls: u8) -> Req {
    // drop: 0 none; 1 one message fewer; 2 one signature fewer; 3 one key fewer; 4 one message more
    let mut msgs: Vec<&[u8]> = entries.iter().map(|e| &e.msg[..]).collect();
    let mut sigs: Vec<&[u8; 64]> = entries.iter().map(|e| &e.sig).collect();
    let mut keys: Vec<&[u8; 32]> = entries.iter().map(|e| &e.pk).collect();
    match drop {
        1 => { msgs.pop(); }
        2 => { sigs.pop(); }
        3 => { keys.pop(); }
        4 => msgs.push(b"extra"),
        _ => {}
    }
    let mut mb = vec![];
    for m in &msgs {
        mb.extend_from_slice(&(m.len() as u16).to_le_bytes());
        mb.extend_from_slice(m);
    }
    let mut sb = vec![];
    for s in &sigs {
        sb.extend_from_slice(&s[..]);
    }
    let mut kb = vec![];
    for k in &keys {
        kb.extend_from_slice(&k[..]);
    }
    Req::new("sig.batch", vec![(msgs.len() as u16).to_le_bytes().to_vec(), mb, sb, kb, vec![calls]])
}

/// one corruption applied to entry i (possibly using entry j)
fn corrupt(v: &mut Vec<Entry>, i: usize, j: usize, kind: u8, bit: usize) {
    let n = v.len();
    if n == 0 {
        return;
    }
    let (i, j) = (i % n, j % n);
    match kind {
        0 => v[i].pk = honest_pool()[(bit + 1) % honest_pool().len()].pk, // another honest key
        1 => {
            if v[i].msg.is_empty() { v[i].msg.push(1); } else { let b = bit % (v[i].msg.len() * 8); v[i].msg[b / 8] ^= 1 << (b % 8); }
        }
        2 => { let r: [u8; 32] = honest_pool()[(bit + 3) % honest_pool().len()].sig[..32].try_into().unwrap(); v[i].sig[..32].copy_from_slice(&r); } // another honest R
        3 => { let s: [u8; 32] = honest_pool()[(bit + 5) % honest_pool().len()].sig[32..].try_into().unwrap(); v[i].sig[32..].copy_from_slice(&s); } // another valid S
        4 => {
            // cancellation pair: S_i + e, S_j - e, both still canonical (each half fails alone)
            if i != j {
                let e = Sc::from_u64(1 + (bit as u64 % 1000));
                let si = Sc::from_bytes_mod_order(&v[i].sig[32..].try_into().unwrap()).add(&e);
                let sj = Sc::from_bytes_mod_order(&v[j].sig[32..].try_into().unwrap()).sub(&e);
                v[i].sig[32..].copy_from_slice(&si.to_bytes());
                v[j].sig[32..].copy_from_slice(&sj.to_bytes());
            }
        }
        5 => {
            // non-canonical S: S + k*l for k = 1..15 (every alias of S below 2^256: each top-bit pattern occurs,
            // e.g. S + 8l has bit 255 set and bits 252..254 clear - seeded change C13d), or S with one top bit set
            let s0 = U256::from_le(&v[i].sig[32..].try_into().unwrap());
            let mut s = s0.wrapping_add(&sc::l());
            if bit % 5 == 4 {
                let mut b = s0.to_le();
                b[31] |= [0x80u8, 0x40, 0x20, 0x10][(bit / 5) % 4];
                if U256::from_le(&b) >= sc::l() {
                    s = U256::from_le(&b);
                }
            } else {
                for _ in 0..(bit / 5) % 15 {
                    let (t, c) = s.add_c(&sc::l());
                    if c {
                        break;
                    }
                    s = t;
                }
            }
            v[i].sig[32..].copy_from_slice(&s.to_le());
        }
        6 => {
            // undecodable R
            let mut y = crate::model::fp::Fp::from_u64(2 + bit as u64 % 1000);
            loop {
                let b = y.to_bytes();
                if crate::model::ed::Aff::decompress(&b).is_none() { v[i].sig[..32].copy_from_slice(&b); break; }
                y = y.add(&crate::model::fp::Fp::ONE);
            }
        }
        8 => {
            // owner-made: an undecodable R together with S = H(R||A||M) * a, i.e. the equation holds as soon as
            // the R term is DROPPED instead of failing the batch (seeded change C13g: Pippenger skipping None points)
            let mut y = crate::model::fp::Fp::from_u64(2 + bit as u64 % 1000);
            loop {
                let b = y.to_bytes();
                if crate::model::ed::Aff::decompress(&b).is_none() { v[i].sig[..32].copy_from_slice(&b); break; }
                y = y.add(&crate::model::fp::Fp::ONE);
            }
            let k = Sc::from_bytes_mod_order_wide(&eddsa::sha512(&[&v[i].sig[..32], &v[i].pk, &v[i].msg]));
            let s = k.mul(&v[i].a);
            v[i].sig[32..].copy_from_slice(&s.to_bytes());
        }
        _ => { let e = v[j].clone(); v[i] = e; } // duplicate another entry
    }
}

pub fn batch(sizes: Vec<usize>) -> BoxedStrategy<Req> {
    let np = honest_pool().len();
    (prop::sample::select(sizes), any::<u64>(), vec((any::<usize>(), any::<usize>(), 0u8..10, any::<usize>()), 0..4), prop_oneof![6 => Just(0u8), 1 => 1u8..5], 1u8..3, any::<bool>())
        .prop_map(move |(n, start, corruptions, drop, calls, permute)| {
            let mut v: Vec<Entry> = (0..n).map(|i| honest_pool()[(start as usize).wrapping_add(i * 7) % np].clone()).collect();
            for (i, j, kind, bit) in corruptions {
                corrupt(&mut v, i, j, kind, bit);
            }
            if permute && n > 1 {
                v.reverse();
                v.rotate_left((start % n as u64) as usize);
            }
            encode(&v, if n == 0 && (1..=3).contains(&drop) { 4 } else { drop }, calls)
        }).boxed()
}

/// Cancellation pairs at structured index distances: S_i + e and S_j - e (or S_i <-> S_j swapped) with
/// j = i + d for d in powers of two and other regular strides. Each modified entry is invalid on its
/// own, so the batch must be rejected; it can only pass if the per-entry coefficients z_i, z_j coincide
/// (e.g. coefficients reused with some period) - one pair per batch so that nothing else can mask it.
pub fn cancellation() -> BoxedStrategy<Req> {
    let np = honest_pool().len();
    (prop::sample::select(vec![2usize, 3, 5, 8, 17, 33, 65, 66, 96, 129, 130, 190, 257]), any::<usize>(), prop::sample::select(vec![1usize, 2, 3, 4, 7, 8, 16, 32, 64, 128, 256]), 1u64..1000, any::<bool>(), any::<usize>())
        .prop_map(move |(n, i, d, e, swap, start)| {
            // distinct pool entries (n <= pool size)
            let mut v: Vec<Entry> = (0..n).map(|k| honest_pool()[(start % np + k) % np].clone()).collect();
            let d = if d >= n { 1 + d % (n - 1).max(1) } else { d };
            // the pair does not wrap around where it fits, and half of the cases pin it to the ends of the batch
            // (first entry, or the last entry as the partner): a coefficient reused only for one index
            // (seeded C13h: z_256 = z_0 from a refill off by one) needs exactly the pair (0, d)
            let span = if d < n { n - d } else { n };
            let i = match i & 3 { 0 => 0, 1 => span - 1, _ => (i >> 2) % span };
            let j = (i + d) % n;
            if i != j {
                if swap {
                    let (si, sj): ([u8; 32], [u8; 32]) = (v[i].sig[32..].try_into().unwrap(), v[j].sig[32..].try_into().unwrap());
                    v[i].sig[32..].copy_from_slice(&sj);
                    v[j].sig[32..].copy_from_slice(&si);
                } else {
                    let ee = Sc::from_u64(e);
                    let si = Sc::from_bytes_mod_order(&v[i].sig[32..].try_into().unwrap()).add(&ee);
                    let sj = Sc::from_bytes_mod_order(&v[j].sig[32..].try_into().unwrap()).sub(&ee);
                    v[i].sig[32..].copy_from_slice(&si.to_bytes());
                    v[j].sig[32..].copy_from_slice(&sj.to_bytes());
                }
            }
            let mut r = encode(&v, 0, 1);
            // remember which two entries were modified (extra argument, ignored by the executor)
            r.a.push(vec![(i & 0xff) as u8, (i >> 8) as u8, (j & 0xff) as u8, (j >> 8) as u8]);
            r
        }).boxed()
}

/// One corrupted entry at a structured position of a batch of any size up to 1100 (pool entries repeat beyond
/// 300: duplicates are allowed), or none. Positions: first, last, last-1, around 64/128/256/512 and random -
/// so that an entry that a chunked, truncated or early-exit implementation never looks at is corrupted in some
/// case (added after the seeded change C13b: batches split into chunks of 256 with the remainder dropped,
/// caught before only by one case in 24 of the large-batch check). Same cheap oracle as `cancellation`.
pub fn single_corruption() -> BoxedStrategy<Req> {
    let np = honest_pool().len();
    let sizes = prop_oneof![
        4 => 1usize..40,
        3 => prop::sample::select(vec![63usize, 64, 65, 94, 95, 96, 127, 128, 129, 189, 190, 191, 255, 256, 257, 258, 300]),
        1 => prop::sample::select(vec![511usize, 512, 513, 600, 767, 769, 1023, 1025, 1100]),
        1 => 40usize..600,
    ];
    (sizes, any::<usize>(), 0usize..14, 0u8..10, any::<usize>(), 0u8..8).prop_map(move |(n, start, pos, kind, bit, permute)| {
        // one time in eight the batch is n copies of the same entry (duplicates are allowed)
        let mut v: Vec<Entry> = (0..n).map(|k| honest_pool()[(start % np + if permute == 0 { 0 } else { k }) % np].clone()).collect();
        let i = match pos {
            0 => 0,
            1 => n - 1,
            2 => n.saturating_sub(2),
            3 => 63,
            4 => 64,
            5 => 127,
            6 => 128,
            7 => 255,
            8 => 256,
            9 => 257,
            10 => 512,
            11 => n / 2,
            _ => bit / 7,
        } % n;
        // kind 7 = no corruption (the batch must be accepted); kind 4 (pair) is replaced by a message flip,
        // kind 9 by the owner-made undecodable R
        let kind = if kind == 4 { 1 } else if kind == 9 { 8 } else { kind };
        if kind != 7 {
            corrupt(&mut v, i, i, kind, bit);
        }
        let _ = permute;
        let mut r = encode(&v, 0, 1);
        r.a.push(vec![(i & 0xff) as u8, (i >> 8) as u8, (i & 0xff) as u8, (i >> 8) as u8, kind]);
        r
    }).boxed()
}

/// oracle for `single_corruption`: the batch is accepted iff the one touched entry still passes the model's
/// single verification (S canonical, R decodable and the equation; every other entry is an untouched pool entry)
pub fn oracle_single(req: &Req, got: &Resp) -> Result<(), String> {
    let idx = &req.a[5];
    let i = idx[0] as usize | (idx[1] as usize) << 8;
    let n = u16::from_le_bytes([req.a[0][0], req.a[0][1]]) as usize;
    let mut p = 0usize;
    let mut msg: &[u8] = &[];
    for k in 0..n {
        let l = u16::from_le_bytes([req.a[1][p], req.a[1][p + 1]]) as usize;
        if k == i {
            msg = &req.a[1][p + 2..p + 2 + l];
        }
        p += 2 + l;
    }
    let sig: [u8; 64] = req.a[2][64 * i..64 * i + 64].try_into().unwrap();
    let pk: [u8; 32] = req.a[3][32 * i..32 * i + 32].try_into().unwrap();
    // batch verification also requires R to decode (documented: an undecodable R is an error)
    let r_ok = crate::model::ed::Aff::decompress(&sig[..32].try_into().unwrap()).is_some();
    let want = (r_ok && eddsa::verify(&pk, &[], msg, &sig, eddsa::SCheck::Canonical)) as u8;
    match got {
        Resp::Ok(b) if b.len() == 1 && b[0] == want => Ok(()),
        Resp::Ok(b) if b.len() == 1 => Err(format!("verify_batch returned {} for a batch of {} honest entries in which only entry {} was touched (corruption kind {}; that entry passes single verification: {})", if b[0] == 1 { "Ok" } else { "Err" }, n, i, idx[4], want == 1)),
        g => Err(format!("sig.batch: {}", g.short())),
    }
}

struct ZeroRng;
impl rand_core::RngCore for ZeroRng {
    fn next_u32(&mut self) -> u32 {
        0
    }
    fn next_u64(&mut self) -> u64 {
        0
    }
    fn fill_bytes(&mut self, _d: &mut [u8]) {}
    fn try_fill_bytes(&mut self, _d: &mut [u8]) -> Result<(), rand_core::Error> {
        Ok(())
    }
}
impl rand_core::CryptoRng for ZeroRng {}

/// The batch coefficients as the documented construction derives them (merlin transcript "ed25519 batch
/// verification", one "hram" message per entry, one "sig.s" message per entry, rng finalised with an
/// all-zero rng, 128 bits per entry) - or under a HYPOTHESIS about a defective derivation:
/// with_s = false leaves the S halves out, with_hram = false leaves the H(R||A||M) values out.
fn predicted_coefficients(v: &[Entry], with_hram: bool, with_s: bool) -> Vec<Sc> {
    use rand_core::RngCore;
    let mut t = merlin::Transcript::new(b"ed25519 batch verification");
    if with_hram {
        for e in v {
            t.append_message(b"hram", &eddsa::sha512(&[&e.sig[..32], &e.pk, &e.msg]));
        }
    }
    if with_s {
        for e in v {
            t.append_message(b"sig.s", &e.sig[32..]);
        }
    }
    let mut rng = t.build_rng().finalize(&mut ZeroRng);
    v.iter().map(|_| {
        let mut b = [0u8; 16];
        rng.fill_bytes(&mut b);
        Sc::from_u256(&U256::from_u128(u128::from_le_bytes(b)))
    }).collect()
}

/// Forgeries against a coefficient derivation that does not bind every input: if the coefficients z can be
/// predicted BEFORE the S halves are fixed (because S, or everything, is left out of the transcript), then
/// S_i += z_j, S_j -= z_i keeps sum z_k * delta_k = 0 and the batch passes although entries i and j are
/// invalid. With the documented derivation z changes as soon as any S changes, so these batches are rejected
/// (added after the seeded change C13f: the S halves appended to the transcript after the rng was built).
pub fn coefficient_prediction() -> BoxedStrategy<Req> {
    let np = honest_pool().len();
    (2usize..12, any::<usize>(), any::<usize>(), 1usize..8, 0u8..3).prop_map(move |(n, start, i, d, hyp)| {
        let mut v: Vec<Entry> = (0..n).map(|k| honest_pool()[(start % np + k) % np].clone()).collect();
        let i = i % n;
        let j = (i + d) % n;
        if i != j {
            let z = match hyp {
                0 => predicted_coefficients(&v, true, false),
                1 => predicted_coefficients(&v, false, false),
                // control: the documented derivation evaluated BEFORE the change of S (what an attacker can compute)
                _ => predicted_coefficients(&v, true, true),
            };
            let si = Sc::from_bytes_mod_order(&v[i].sig[32..].try_into().unwrap()).add(&z[j]);
            let sj = Sc::from_bytes_mod_order(&v[j].sig[32..].try_into().unwrap()).sub(&z[i]);
            v[i].sig[32..].copy_from_slice(&si.to_bytes());
            v[j].sig[32..].copy_from_slice(&sj.to_bytes());
        }
        let mut r = encode(&v, 0, 1);
        r.a.push(vec![(i & 0xff) as u8, (i >> 8) as u8, (j & 0xff) as u8, (j >> 8) as u8]);
        r
    }).boxed()
}

/// oracle for `cancellation`: the two modified entries are checked with the model's single-verification
/// predicate (all other entries are untouched pool entries, valid by construction and by the self-check
/// of the pool); the batch must be rejected iff one of them is invalid
pub fn oracle_cancellation(req: &Req, got: &Resp) -> Result<(), String> {
    let idx = &req.a[5];
    let (i, j) = (idx[0] as usize | (idx[1] as usize) << 8, idx[2] as usize | (idx[3] as usize) << 8);
    // parse messages
    let n = u16::from_le_bytes([req.a[0][0], req.a[0][1]]) as usize;
    let mut msgs: Vec<&[u8]> = vec![];
    let mut p = 0usize;
    for _ in 0..n {
        let l = u16::from_le_bytes([req.a[1][p], req.a[1][p + 1]]) as usize;
        msgs.push(&req.a[1][p + 2..p + 2 + l]);
        p += 2 + l;
    }
    let entry_ok = |k: usize| -> bool {
        let sig: [u8; 64] = req.a[2][64 * k..64 * k + 64].try_into().unwrap();
        let pk: [u8; 32] = req.a[3][32 * k..32 * k + 32].try_into().unwrap();
        eddsa::verify(&pk, &[], msgs[k], &sig, eddsa::SCheck::Canonical)
    };
    let want = if i == j { 1u8 } else { (entry_ok(i) && entry_ok(j)) as u8 };
    match got {
        Resp::Ok(b) if b.len() == 1 && b[0] == want => Ok(()),
        Resp::Ok(b) if b.len() == 1 => Err(format!("verify_batch returned {} for a batch of {} honest entries in which entries {} and {} carry compensating corruptions of S (each fails single verification: {})", if b[0] == 1 { "Ok" } else { "Err" }, n, i, j, want == 0)),
        g => Err(format!("sig.batch: {}", g.short())),
    }
}

const BOUNDARY: [usize; 9] = [0, 1, 2, 94, 95, 96, 189, 190, 400];

pub fn classify(r: &Req, resp: &Resp) -> Vec<&'static str> {
    let mut l = vec![];
    let nm = u16::from_le_bytes([r.a[0][0], r.a[0][1]]) as usize;
    let (ns, nk) = (r.a[2].len() / 64, r.a[3].len() / 32);
    if nm != ns || ns != nk {
        l.push("mismatched-lengths");
    }
    if BOUNDARY.contains(&ns) {
        l.push("regime-boundary-n");
    }
    if let Resp::Ok(b) = resp {
        if b.iter().all(|x| *x == 0) && ns >= 2 && nm == ns && ns == nk {
            l.push("corrupted-entry-among-many");
        }
        if b.len() > 1 {
            l.push("repeated-call");
        }
    }
    if r.a[2].chunks(64).any(|s| U256::from_le(&s[32..].try_into().unwrap()) >= sc::l()) {
        l.push("non-canonical-S");
    }
    if r.a[2].chunks(64).any(|s| crate::model::ed::Aff::decompress(&s[..32].try_into().unwrap()).is_none()) {
        l.push("undecodable-R");
    }
    l
}

pub const RULE: &str = "batches of n in {0,1,2,3,8,33} (and one each of 94,95,96,190,250,400: Straus/Pippenger switch at 2n+1=190) drawn from a pool of honest entries (canonical torsion-free keys and R, mixed message lengths, several messages per key), with 0..3 corruptions (another honest key, message bit flip, another honest R, another valid S, the cancellation pair S_i+e / S_j-e, duplication; and a dedicated family of single cancellation / swap pairs at structured index distances 1,2,3,4,7,8,16,32,64,128,256 in batches of 2..257 distinct honest entries, half of the pairs pinned to the first entry or to the last entry as partner), and a family of batches of 1..1100 entries with exactly one corrupted entry at a structured position (first, last, around 64/128/256/512, middle, random) or none, and forgeries S_i += z_j, S_j -= z_i built from coefficients predicted under the hypotheses that S is not bound or that nothing is bound (the merlin derivation replicated), error classes (S+l, undecodable R, each kind of slice-length mismatch), permutation and repeated calls; oracle = conjunction of the model's single-verification predicate over the entries (error classes must give Err, never a panic or Ok); non-trivial = >=2 entries with a corruption, n on a regime boundary, an error-class input or a repeated call";

pub fn checks(tier: Tier) -> Vec<Check> {
    vec![
        Check {
            name: "C13.batch-small".into(),
            strategy: batch(vec![0, 1, 2, 3, 8, 33]),
            cases: tier.scale(12_000, 8),
            exec: Box::new(crate::ops::exec),
            oracle: Box::new(crate::mops::oracle),
            classify: Box::new(classify),
            rule: RULE,
            exhaustive: false,
            enumerate: None,
        },
        Check {
            name: "C13.batch-cancellation-pairs".into(),
            strategy: cancellation(),
            cases: tier.scale(6_000, 8),
            exec: Box::new(crate::ops::exec),
            oracle: Box::new(oracle_cancellation),
            classify: Box::new(|r: &Req, _: &Resp| { let n = r.a[2].len() / 64; if n > 64 { vec!["cancellation-pair-n>64"] } else { vec!["cancellation-pair"] } }),
            rule: RULE,
            exhaustive: false,
            enumerate: None,
        },
        Check {
            name: "C13.batch-coefficient-prediction".into(),
            strategy: coefficient_prediction(),
            cases: tier.scale(4_000, 8),
            exec: Box::new(crate::ops::exec),
            oracle: Box::new(oracle_cancellation),
            classify: Box::new(|_: &Req, _: &Resp| vec!["forgery-from-predicted-coefficients"]),
            rule: RULE,
            exhaustive: false,
            enumerate: None,
        },
        Check {
            name: "C13.batch-single-corruption-positions".into(),
            strategy: single_corruption(),
            cases: tier.scale(1_500, 8),
            exec: Box::new(crate::ops::exec),
            oracle: Box::new(oracle_single),
            classify: Box::new(|r: &Req, resp: &Resp| {
                let n = r.a[2].len() / 64;
                let mut l = vec![];
                if n > 256 { l.push("batch-n>256"); }
                if n > 64 { l.push("batch-n>64"); }
                if r.a[5][4] == 7 { l.push("untouched-batch-accepted"); } else { l.push("one-corrupted-entry"); }
                if *resp == Resp::Ok(vec![1]) && r.a[5][4] != 7 { l.push("touched-entry-still-valid"); }
                l
            }),
            rule: RULE,
            exhaustive: false,
            enumerate: None,
        },
        Check {
            name: "C13.batch-large".into(),
            strategy: batch(vec![94, 95, 96, 190, 250, 400]),
            cases: tier.scale(60, 10),
            exec: Box::new(crate::ops::exec),
            oracle: Box::new(crate::mops::oracle),
            classify: Box::new(classify),
            rule: RULE,
            exhaustive: false,
            enumerate: None,
        },
    ]
}
