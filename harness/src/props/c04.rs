//! C04: every scalar-multiplication algorithm returns sum s_i * P_i.
use super::Tier;
use crate::gens::*;
use crate::model::big::U256;
use crate::model::ed::Aff;
use crate::model::sc::{self, Sc};
use crate::req::{Req, Resp};
use crate::runner::{Check, Exec};
use proptest::collection::vec;
use proptest::prelude::*;

/// scalars for the entry points documented to accept unreduced integers below 2^255
fn scalar_wide() -> BoxedStrategy<B32> {
    prop_oneof![2 => scalar_unreduced255(), 1 => scalar_for_mul()].boxed()
}

/// two scalars with a degenerate relation (both zero, one zero, equal, opposite): the places where a
/// "first non-zero digit" search or a cancellation can fall off the end (added after the seeded change C15b:
/// unbounded search for the top NAF digit when both scalars are zero)
fn scalar_pair() -> BoxedStrategy<(B32, B32)> {
    let z = [0u8; 32];
    prop_oneof![
        12 => (scalar_wide(), scalar_wide()),
        1 => Just((z, z)),
        1 => scalar_wide().prop_map(move |s| (z, s)),
        1 => scalar_wide().prop_map(move |s| (s, z)),
        1 => scalar_for_mul().prop_map(|s| (s, s)),
        1 => scalar_for_mul().prop_map(|s| (s, Sc::from_bytes_mod_order(&s).neg().to_bytes())),
    ].boxed()
}

/// n scalars: independent, or all zero / all equal / a single non-zero one
fn scalar_vec(n: usize) -> BoxedStrategy<Vec<B32>> {
    prop_oneof![
        10 => vec(scalar_for_mul(), n),
        1 => Just(vec![[0u8; 32]; n]),
        1 => scalar_for_mul().prop_map(move |s| vec![s; n]),
        1 => (scalar_for_mul(), 0..n.max(1)).prop_map(move |(s, i)| { let mut v = vec![[0u8; 32]; n]; if n > 0 { v[i] = s; } v }),
        // every scalar of the batch short: at most m bits, the longest one exactly m bits with its top bits set
        // (a column count derived from the longest scalar must still hold the recentering carry: seeded C04h)
        2 => (1usize..=252, vec(any::<[u8; 32]>(), n), any::<u8>()).prop_map(move |(m, mut v, fill)| {
            for (i, s) in v.iter_mut().enumerate() {
                for k in m..256 { s[k / 8] &= !(1 << (k % 8)); }
                if i == 0 || fill & 3 == 0 {
                    // top bits all ones down to the next window boundary, and an incoming carry below
                    for k in m.saturating_sub(8)..m { s[k / 8] |= 1 << (k % 8); }
                }
            }
            v
        }),
    ].boxed()
}

/// n points: independent, or all the identity / all equal / P, -P pairs (the sum cancels)
fn point_vec(n: usize, pts: BoxedStrategy<B32>) -> BoxedStrategy<Vec<B32>> {
    let id = Aff::IDENTITY.compress();
    prop_oneof![
        10 => vec(pts.clone(), n),
        1 => Just(vec![id; n]),
        1 => pts.clone().prop_map(move |p| vec![p; n]),
        1 => pts.prop_map(move |p| {
            let mut q = p;
            q[31] ^= 0x80; // -P (for x = 0 this is a non-canonical encoding of the same point: still a valid input)
            (0..n).map(|i| if i % 2 == 0 { p } else { q }).collect()
        }),
    ].boxed()
}

fn point_any() -> BoxedStrategy<B32> {
    edwards_point().prop_map(|(_, e)| e).boxed()
}

/// the variable point of a double-base multiplication related to the fixed base: B, -B, 2B, the identity, a torsion point
fn point_related_to_base() -> BoxedStrategy<B32> {
    let b = Aff::basepoint();
    prop_oneof![
        Just(b.compress()),
        Just(b.neg().compress()),
        Just(b.dbl().compress()),
        Just(Aff::IDENTITY.compress()),
        (1usize..8).prop_map(|t| torsion()[t].compress()),
        (1usize..8).prop_map(|t| Aff::basepoint().add(&torsion()[t]).compress()),
    ].boxed()
}

/// pool-based points only (cheap model even for n = 1000)
fn point_pool() -> BoxedStrategy<B32> {
    let np = pool().pts.len();
    prop_oneof![
        4 => (0..np).prop_map(|i| pool().pts[i].1.compress()),
        4 => (0..np, 1usize..8).prop_map(|(i, t)| pool().pts[i].1.add(&torsion()[t]).compress()),
        1 => (0usize..8).prop_map(|t| torsion()[t].compress()),
    ].boxed()
}

fn cat(v: &[B32]) -> Vec<u8> {
    let mut o = Vec::with_capacity(32 * v.len());
    for x in v {
        o.extend_from_slice(x);
    }
    o
}

pub fn single_strategy(tables: bool) -> BoxedStrategy<Req> {
    let mut v: Vec<(u32, BoxedStrategy<Req>)> = vec![
        (6, (scalar_wide(), point_any()).prop_map(|(s, p)| Req::new("sm.var_base", vec![s.to_vec(), p.to_vec()])).boxed()),
        (4, scalar_wide().prop_map(|s| Req::new("sm.mul_base", vec![s.to_vec()])).boxed()),
        (2, (u256_interesting(), point_any()).prop_map(|(b, p)| Req::new("sm.mul_clamped", vec![b.to_vec(), p.to_vec()])).boxed()),
        (2, u256_interesting().prop_map(|b| Req::new("sm.mul_base_clamped", vec![b.to_vec()])).boxed()),
        (1, (scalar_pair(), point_related_to_base()).prop_map(|((a, b), p)| Req::new("sm.double_base", vec![a.to_vec(), p.to_vec(), b.to_vec()])).boxed()),
        (5, (scalar_pair(), point_any()).prop_map(|((a, b), p)| Req::new("sm.double_base", vec![a.to_vec(), p.to_vec(), b.to_vec()])).boxed()),
    ];
    if tables {
        v.push((3, scalar_wide().prop_map(|s| Req::new("sm.const_table", vec![s.to_vec()])).boxed()));
        v.push((3, (4u8..=8, point_any(), scalar_wide(), u256_interesting()).prop_map(|(r, p, s, c)| Req::new("sm.table", vec![vec![r], p.to_vec(), s.to_vec(), c.to_vec()])).boxed()));
        v.push((1, (vec(4u8..=8, 2..=3), point_any(), scalar_wide()).prop_map(|(ch, p, s)| Req::new("sm.table_convert", vec![ch, p.to_vec(), s.to_vec()])).boxed()));
    }
    proptest::strategy::Union::new_weighted(v).boxed()
}

fn msm_req(kind: u8, scalars: Vec<B32>, points: Vec<B32>, none: Vec<u8>) -> Req {
    Req::new("sm.msm", vec![vec![kind], none, cat(&scalars), cat(&points)])
}

fn none_bitmap(n: usize) -> BoxedStrategy<Vec<u8>> {
    prop_oneof![
        3 => Just(vec![]),
        2 => (0..n.max(1)).prop_map(move |i| { let mut v = vec![0u8; n / 8 + 1]; if n > 0 { v[i / 8] |= 1 << (i % 8); } v }),
        1 => vec(any::<u8>(), n / 8 + 1),
    ].boxed()
}

/// one multiscalar request of a fixed size and kind (pool points: cheap model)
pub fn msm_fixed(n: usize, kind: u8) -> BoxedStrategy<Req> {
    (scalar_vec(n), point_vec(n, point_pool()), none_bitmap(n)).prop_map(move |(s, p, none)| msm_req(kind, s, p, if kind == 2 { none } else { vec![] })).boxed()
}

pub fn msm_strategy(sizes: Vec<usize>, pool_only: bool) -> BoxedStrategy<Req> {
    let pts = move || if pool_only { point_pool() } else { prop_oneof![3 => point_pool(), 1 => point_any()].boxed() };
    let p1 = pts.clone();
    let p2 = pts.clone();
    let s1 = sizes.clone();
    let msm = (prop::sample::select(sizes), 0u8..5).prop_flat_map(move |(n, kind)| {
        (Just(kind), scalar_vec(n), point_vec(n, p1()), none_bitmap(n)).prop_map(|(kind, s, p, none)| msm_req(kind, s, p, if kind == 2 { none } else { vec![] }))
    });
    let pre = (prop::sample::select(s1), 0u8..3, 0usize..4, 0usize..4).prop_flat_map(move |(n, variant, fewer, dyn_n)| {
        // n static points, n - fewer static scalars (fewer static scalars than points is allowed),
        // dyn_n dynamic pairs (scaled up for large n)
        let ns = n.saturating_sub(fewer);
        let nd = if variant == 0 { 0 } else if n > 100 { dyn_n * 40 } else { dyn_n };
        (Just(variant), point_vec(n, p2()), scalar_vec(ns), scalar_vec(nd), point_vec(nd, p2()), none_bitmap(nd))
            .prop_map(|(variant, sp, ss, ds, dp, none)| Req::new("sm.precomp", vec![vec![variant], cat(&sp), cat(&ss), cat(&ds), cat(&dp), if variant >= 2 { none } else { vec![] }]))
    });
    // terms that cancel in pairs: (s, P), (s, -P), ... : the sum is the identity (or one leftover term)
    let p3 = pts.clone();
    let cancel = (prop::sample::select(vec![2usize, 3, 4, 8, 9, 64, 65, 190, 191]), 0u8..5).prop_flat_map(move |(n, kind)| {
        (Just(kind), vec(scalar_for_mul(), (n + 1) / 2), vec(p3(), (n + 1) / 2)).prop_map(move |(kind, s, p)| {
            let mut ss = vec![];
            let mut pp = vec![];
            for i in 0..n {
                ss.push(s[i / 2]);
                let mut q = p[i / 2];
                if i % 2 == 1 {
                    q[31] ^= 0x80;
                }
                pp.push(q);
            }
            msm_req(kind, ss, pp, vec![])
        })
    });
    prop_oneof![9 => msm, 3 => pre, 1 => cancel].boxed()
}

/// chains: the un-normalised result of one multiplication is the input of the next
pub fn chain_strategy() -> BoxedStrategy<Req> {
    (point_any(), vec((0u8..8, scalar_for_mul(), scalar_for_mul()), 2..=8)).prop_map(|(p, steps)| {
        let mut b = vec![];
        for (k, s, t) in steps {
            b.push(k);
            b.extend_from_slice(&s);
            b.extend_from_slice(&t);
        }
        Req::new("sm.chain", vec![p.to_vec(), b])
    }).boxed()
}

pub fn recode_strategy() -> BoxedStrategy<Req> {
    (scalar_unreduced255(), prop_oneof![Just((0u8, 4u8)), (4u8..=8).prop_map(|w| (1u8, w)), (2u8..=8).prop_map(|w| (2u8, w))])
        .prop_map(|(s, (kind, w))| Req::new("sm.recode", vec![s.to_vec(), vec![kind], vec![w]])).boxed()
}

const BOUNDARY_N: [usize; 18] = [0, 1, 2, 3, 8, 63, 64, 65, 189, 190, 191, 499, 500, 501, 799, 800, 801, 1000];

fn scalar_labels(b: &[u8], l: &mut Vec<&'static str>) {
    let x: [u8; 32] = b.try_into().unwrap();
    if U256::from_le(&x) >= sc::l() && !l.contains(&"unreduced-scalar") {
        l.push("unreduced-scalar");
    }
    if special32(&x) && !l.contains(&"special-scalar") {
        l.push("special-scalar");
    }
    // radix-16 recoding: carry into the top digit (digit 63 becomes 8) needs nibbles >= 8 up to the top
    if x[31] & 0xf0 == 0x70 && x[31] & 0x0f >= 8 && !l.contains(&"radix16-top-digit-carry") {
        l.push("radix16-top-digit-carry");
    }
}
fn point_labels(b: &[u8], l: &mut Vec<&'static str>) {
    let x: [u8; 32] = b.try_into().unwrap();
    if let Some(p) = Aff::decompress(&x) {
        if !p.is_torsion_free() && !l.contains(&"torsion-carrying-point") {
            l.push("torsion-carrying-point");
        }
    }
}

pub fn classify(req: &Req, resp: &Resp) -> Vec<&'static str> {
    let mut l = vec![];
    match req.op.as_str() {
        "sm.var_base" => {
            scalar_labels(&req.a[0], &mut l);
            point_labels(&req.a[1], &mut l);
        }
        "sm.mul_base" | "sm.const_table" | "sm.recode" => scalar_labels(&req.a[0], &mut l),
        "sm.mul_clamped" => {
            l.push("clamped");
            point_labels(&req.a[1], &mut l);
        }
        "sm.mul_base_clamped" => l.push("clamped"),
        "sm.double_base" => {
            scalar_labels(&req.a[0], &mut l);
            scalar_labels(&req.a[2], &mut l);
            point_labels(&req.a[1], &mut l);
        }
        "sm.table" | "sm.table_convert" => {
            l.push("table-of-arbitrary-point");
            scalar_labels(&req.a[2], &mut l);
            point_labels(&req.a[1], &mut l);
        }
        "sm.msm" | "sm.precomp" => {
            let (si, pi) = if req.op == "sm.msm" { (2, 3) } else { (2, 1) };
            let n = req.a[pi].len() / 32;
            if BOUNDARY_N.contains(&n) {
                l.push("regime-boundary-n");
            }
            for s in req.a[si].chunks(32).take(8) {
                scalar_labels(s, &mut l);
            }
            for p in req.a[pi].chunks(32).take(8) {
                point_labels(p, &mut l);
            }
            if *resp == Resp::Rej {
                l.push("none-input");
            }
        }
        _ => {}
    }
    l
}

pub fn forced_exec(kind: u8) -> Exec {
    Box::new(move |req| {
        #[cfg(curve25519_dalek_verif)]
        curve25519_dalek::verif_hooks::force_backend(kind);
        let r = crate::ops::exec(req);
        #[cfg(curve25519_dalek_verif)]
        curve25519_dalek::verif_hooks::force_backend(0);
        let _ = kind;
        r
    })
}

/// (label, forced kind) for every implementation the dispatcher could select in this build
pub fn dispatch_choices() -> Vec<(&'static str, u8)> {
    #[cfg(curve25519_dalek_verif)]
    {
        let (_, avx2, avx512) = curve25519_dalek::verif_hooks::compiled_backends();
        let mut v = vec![("serial", 1u8)];
        if avx2 && std::is_x86_feature_detected!("avx2") {
            v.push(("avx2", 2));
        }
        if avx512 && std::is_x86_feature_detected!("avx512ifma") && std::is_x86_feature_detected!("avx512vl") {
            v.push(("avx512", 3));
        }
        v
    }
    #[cfg(not(curve25519_dalek_verif))]
    {
        vec![("auto", 0u8)]
    }
}

pub const RULE: &str = "every Edwards scalar-multiplication entry point (variable-base in all operator forms, mul_base, clamped variants, the Montgomery ladder (scalar and bit-string forms), the Ristretto wrappers, the shipped table, tables of 5 radices created from arbitrary points and converted between radices, vartime double-base, constant-time / vartime / optional multiscalar, precomputed mixed multiscalar with fewer static scalars and None inputs) executed once per implementation the run-time dispatcher can select (forced through the hook); points from a pool with known discrete logs (with and without 8-torsion) and arbitrary curve points; scalars window-structured (radix/NAF corners), canonical everywhere and unreduced < 2^255 where documented; n in {0,1,2,3,8,63,64,65,189,190,191,499,500,501,799,800,801,1000}; chains of 2..8 multiplications in which the un-normalised result of one algorithm is the input of the next (so representations produced by a back end are fed back into it); the signed-digit recoders themselves are checked by a validity predicate (digits denote the integer, documented ranges/sparsity). Non-trivial = unreduced or special-pattern scalar, torsion-carrying point, n on a regime boundary, a None input, a table of an arbitrary point, or a clamped variant";

pub fn checks(tier: Tier) -> Vec<Check> {
    let tables = cfg!(feature = "tables");
    let mut v = vec![];
    if cfg!(curve25519_dalek_verif) {
        v.push(Check {
            name: "C04.recoders".into(),
            strategy: recode_strategy(),
            cases: tier.scale(200_000, 20),
            exec: Box::new(crate::ops::exec),
            oracle: Box::new(crate::mops::scalarmul::recode_oracle),
            classify: Box::new(classify),
            rule: RULE,
            exhaustive: false,
            enumerate: None,
        });
    }
    for (label, kind) in dispatch_choices() {
        v.push(Check {
            name: format!("C04.single[{}]", label),
            strategy: single_strategy(tables),
            cases: tier.scale(4_000, 20),
            exec: forced_exec(kind),
            oracle: Box::new(crate::mops::oracle),
            classify: Box::new(classify),
            rule: RULE,
            exhaustive: false,
            enumerate: None,
        });
        v.push(Check {
            name: format!("C04.chains[{}]", label),
            strategy: chain_strategy(),
            cases: tier.scale(1_500, 20),
            exec: forced_exec(kind),
            oracle: Box::new(crate::mops::oracle),
            classify: Box::new(|r: &Req, _: &Resp| if r.a[1].len() / 65 >= 4 { vec!["chain-of>=4-multiplications"] } else { vec!["chain"] }),
            rule: RULE,
            exhaustive: false,
            enumerate: None,
        });
        v.push(Check {
            name: format!("C04.wrappers[{}]", label),
            strategy: prop_oneof![super::c06::mul_wrappers(tables), super::c07::ladder_ops()].boxed(),
            cases: tier.scale(1_500, 20),
            exec: forced_exec(kind),
            oracle: Box::new(crate::mops::oracle),
            classify: Box::new(|r: &Req, _: &Resp| if r.op.starts_with("mt.") { vec!["montgomery-ladder"] } else { vec!["ristretto-wrapper"] }),
            rule: RULE,
            exhaustive: false,
            enumerate: None,
        });
        v.push(Check {
            name: format!("C04.msm[{}]", label),
            strategy: msm_strategy(vec![0, 1, 2, 3, 8, 63, 64, 65], false),
            cases: tier.scale(1_200, 10),
            exec: forced_exec(kind),
            oracle: Box::new(crate::mops::oracle),
            classify: Box::new(classify),
            rule: RULE,
            exhaustive: false,
            enumerate: None,
        });
        v.push(Check {
            // sizes far beyond every threshold in the source (190, 500, 800): a window-size or chunking rule with a
            // further threshold only shows there (seeded change C11f: w = 9 from 5000 terms on, which the digit
            // code cannot represent)
            name: format!("C04.msm-huge[{}]", label),
            strategy: prop_oneof![msm_fixed(2048, 1), msm_fixed(5000, 1), msm_fixed(5000, 2), msm_fixed(10000, 4), msm_fixed(4097, 0)].boxed(),
            cases: tier.scale(5, 3),
            exec: forced_exec(kind),
            oracle: Box::new(crate::mops::oracle),
            classify: Box::new(|_: &Req, _: &Resp| vec!["multiscalar-n>=2048"]),
            rule: RULE,
            exhaustive: false,
            enumerate: None,
        });
        v.push(Check {
            name: format!("C04.msm-large[{}]", label),
            strategy: msm_strategy(vec![189, 190, 191, 499, 500, 501, 799, 800, 801, 1000], true),
            cases: tier.scale(96, 10),
            exec: forced_exec(kind),
            oracle: Box::new(crate::mops::oracle),
            classify: Box::new(classify),
            rule: RULE,
            exhaustive: false,
            enumerate: None,
        });
    }
    v
}
