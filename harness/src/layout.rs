//! What the serial field representation of this build looks like (only meaningful with hooks).
use crate::model::fp::Fp;
use crate::model::big::U256;

#[derive(Clone, Debug)]
pub struct FeLayout {
    pub name: &'static str,
    pub nlimbs: usize,
    /// bit position of each limb
    pub shifts: Vec<usize>,
    /// nominal width of each limb
    pub widths: Vec<usize>,
    /// largest admissible limb value (inclusive) per limb: the documented headroom
    pub max_admissible: Vec<u64>,
    /// documented bound on *stored* results of reducing kernels (inclusive), used by C11
    pub max_reduced: Vec<u64>,
}

#[cfg(curve25519_dalek_verif)]
pub fn fe_layout() -> FeLayout {
    use curve25519_dalek::verif_hooks as h;
    let name = h::serial_backend_name();
    layout_for(name)
}
#[cfg(not(curve25519_dalek_verif))]
pub fn fe_layout() -> FeLayout {
    layout_for("none")
}

fn pow2f(e: f64) -> u64 {
    // floor(2^e) - 1 as the largest integer strictly below 2^e (e is not an integer here)
    2f64.powf(e).floor() as u64
}

pub fn layout_for(name: &'static str) -> FeLayout {
    match name {
        // "the coefficients are allowed to grow up to 2^54 between reductions modulo p"
        "u64" => FeLayout {
            name,
            nlimbs: 5,
            shifts: (0..5).map(|i| 51 * i).collect(),
            widths: vec![51; 5],
            max_admissible: vec![(1u64 << 54) - 1; 5],
            // reduce(): 2^51 + 19*2^13 (weak reduction); mul/pow2k: < 2^51 + 2^18 is the looser documented figure
            max_reduced: vec![(1u64 << 51) + (1u64 << 18); 5],
        },
        // fiat-crypto tight bounds: each limb <= 2^51 (dalek's wrapper carries after add/sub/neg)
        "fiat_u64" => FeLayout {
            name,
            nlimbs: 5,
            shifts: (0..5).map(|i| 51 * i).collect(),
            widths: vec![51; 5],
            max_admissible: vec![1u64 << 51; 5],
            max_reduced: vec![1u64 << 51; 5],
        },
        // "allowed to grow between reductions up to 2^(25+b) or 2^(26+b), where b = 1.75"
        "u32" => FeLayout {
            name,
            nlimbs: 10,
            shifts: vec![0, 26, 51, 77, 102, 128, 153, 179, 204, 230],
            widths: vec![26, 25, 26, 25, 26, 25, 26, 25, 26, 25],
            max_admissible: (0..10).map(|i| if i % 2 == 0 { pow2f(27.75) - 1 } else { pow2f(26.75) - 1 }).collect(),
            // reduce(): "excess b < 0.007"
            max_reduced: (0..10).map(|i| if i % 2 == 0 { pow2f(26.007) } else { pow2f(25.007) }).collect(),
        },
        "fiat_u32" => FeLayout {
            name,
            nlimbs: 10,
            shifts: vec![0, 26, 51, 77, 102, 128, 153, 179, 204, 230],
            widths: vec![26, 25, 26, 25, 26, 25, 26, 25, 26, 25],
            max_admissible: (0..10).map(|i| if i % 2 == 0 { 1u64 << 26 } else { 1u64 << 25 }).collect(),
            max_reduced: (0..10).map(|i| if i % 2 == 0 { 1u64 << 26 } else { 1u64 << 25 }).collect(),
        },
        _ => FeLayout { name, nlimbs: 0, shifts: vec![], widths: vec![], max_admissible: vec![], max_reduced: vec![] },
    }
}

impl FeLayout {
    /// value of a raw limb vector: sum limb_i * 2^shift_i mod p
    pub fn value(&self, limbs: &[u64]) -> Fp {
        let mut acc = Fp::ZERO;
        for i in 0..self.nlimbs {
            let w = Fp::from_u256(&U256::ONE.shl(self.shifts[i]));
            acc = acc.add(&Fp::from_u64(limbs[i]).mul(&w));
        }
        acc
    }
    pub fn decode(&self, raw: &[u8]) -> Vec<u64> {
        raw.chunks(8).map(|c| u64::from_le_bytes(c.try_into().unwrap())).collect()
    }
    pub fn encode(&self, limbs: &[u64]) -> Vec<u8> {
        let mut v = vec![];
        for l in limbs.iter().take(self.nlimbs) {
            v.extend_from_slice(&l.to_le_bytes());
        }
        v
    }
    /// canonical limb representation of a value (for representation-independence checks)
    pub fn canonical_limbs(&self, v: &Fp) -> Vec<u64> {
        (0..self.nlimbs).map(|i| v.0.shr(self.shifts[i]).low_u64() & ((1u64 << self.widths[i]) - 1)).collect()
    }
    /// Is this operand encoding (32 bytes or raw limbs) a field operand; its value
    pub fn operand_value(&self, arg: &[u8]) -> Option<Fp> {
        if arg.len() == 32 {
            Some(Fp::from_bytes(arg.try_into().unwrap()))
        } else if self.nlimbs > 0 && arg.len() == 8 * self.nlimbs {
            Some(self.value(&self.decode(arg)))
        } else {
            None
        }
    }
}
