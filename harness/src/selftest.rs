//! Model self-test: the reference model against published vectors copied into /verif/vectors
//! and against values computed by Python's built-in integers (tools/pyref.py).
use crate::model::big::{U256, U512};
use crate::model::ed::{self, Aff};
use crate::model::fp::{self, Fp};
use crate::model::sc::{self, Sc};
use crate::model::{eddsa, mont, rist};
use crate::util::*;

fn vec_dir() -> String {
    std::env::var("VERIF_VECTORS").unwrap_or_else(|_| "/verif/vectors".to_string())
}

pub fn run() -> Result<usize, String> {
    let mut n = 0usize;
    macro_rules! ck {
        ($c:expr, $($m:tt)*) => { n += 1; if !($c) { return Err(format!($($m)*)); } };
    }
    // constants
    ck!(fp::p() == U256::ONE.shl(255).wrapping_sub(&U256::from_u64(19)), "p");
    ck!(sc::l() == U256::from_hex_be("1000000000000000000000000000000014def9dea2f79cd65812631a5cf5d3ed"), "l");
    ck!(fp::d().0 == U256::from_hex_be("52036cee2b6ffe738cc740797779e89800700a4d4141d8ab75eb4dca135978a3"), "d");
    ck!(Fp::sqrt_m1() == rist::sqrt_m1() || Fp::sqrt_m1().neg() == rist::sqrt_m1(), "sqrt_m1 agreement");
    ck!(rist::sqrt_m1().sq() == Fp::ONE.neg() && !rist::sqrt_m1().is_neg(), "sqrt_m1");
    ck!(rist::sqrt_ad_minus_one().sq() == fp::d().neg().sub(&Fp::ONE), "sqrt(ad-1)");
    ck!(rist::invsqrt_a_minus_d().sq().mul(&Fp::ONE.neg().sub(&fp::d())) == Fp::ONE, "invsqrt(a-d)");
    let b = Aff::basepoint();
    ck!(b.on_curve(), "basepoint on curve");
    ck!(hex(&b.compress()) == "5866666666666666666666666666666666666666666666666666666666666666", "basepoint encoding");
    ck!(b.mul(&sc::l()).is_identity() && !b.is_identity(), "basepoint order");
    ck!(b.to_montgomery_u() == Fp::from_u64(9), "u(B) = 9");
    let t8 = ed::torsion_generator();
    ck!(t8.on_curve() && t8.mul8().is_identity() && !t8.dbl().dbl().is_identity(), "T8 order 8");
    let tors = ed::torsion_points();
    let encs: Vec<String> = tors.iter().map(|t| hex(&t.compress())).collect();
    let mut sorted = encs.clone();
    sorted.sort();
    sorted.dedup();
    ck!(sorted.len() == 8, "8 distinct torsion points");
    ck!(encs.contains(&"c7176a703d4dd84fba3c0b760d10670f2a2053fa2c39ccc64ec7fd7792ac037a".to_string()), "known order-8 encoding");
    ck!(encs.contains(&"ecffffffffffffffffffffffffffffffffffffffffffffffffffffffffffff7f".to_string()), "order-2 point");
    // projective vs affine
    for k in [0u64, 1, 2, 3, 7, 8, 255, 0xdeadbeefcafe] {
        let kk = U256::from_u64(k).wrapping_add(&U256::from_u64(k).shl(130));
        ck!(b.mul(&kk) == b.mul_affine(&kk), "proj vs affine k={}", k);
        let q = b.add(&t8);
        ck!(q.mul(&kk) == q.mul_affine(&kk), "proj vs affine (torsion) k={}", k);
    }
    // python reference
    let text = std::fs::read_to_string(format!("{}/pyref.txt", vec_dir())).map_err(|e| e.to_string())?;
    for (ln, line) in text.lines().enumerate() {
        let f: Vec<&str> = line.split_whitespace().collect();
        let a = |i: usize| unhex(f[i]);
        let got: String = match f[0] {
            "fadd" => hex(&Fp::from_bytes(&a32(&a(1))).add(&Fp::from_bytes(&a32(&a(2)))).to_bytes()),
            "fsub" => hex(&Fp::from_bytes(&a32(&a(1))).sub(&Fp::from_bytes(&a32(&a(2)))).to_bytes()),
            "fmul" => hex(&Fp::from_bytes(&a32(&a(1))).mul(&Fp::from_bytes(&a32(&a(2)))).to_bytes()),
            "finv" => hex(&Fp::from_bytes(&a32(&a(1))).inv().to_bytes()),
            "fsqrtratio" => {
                let (w, r) = fp::sqrt_ratio_i(&Fp::from_bytes(&a32(&a(1))), &Fp::from_bytes(&a32(&a(2))));
                // the RFC 9496 transcription must agree with the four-case contract as well
                let (w2, r2) = rist::sqrt_ratio_m1(&Fp::from_bytes(&a32(&a(1))), &Fp::from_bytes(&a32(&a(2))));
                ck!((w, r) == (w2, r2), "line {}: sqrt_ratio contract vs RFC transcription", ln + 1);
                format!("{:02x}{}", w as u8, hex(&r.to_bytes()))
            }
            "sadd" => hex(&Sc::from_bytes_mod_order(&a32(&a(1))).add(&Sc::from_bytes_mod_order(&a32(&a(2)))).to_bytes()),
            "smul" => hex(&Sc::from_bytes_mod_order(&a32(&a(1))).mul(&Sc::from_bytes_mod_order(&a32(&a(2)))).to_bytes()),
            "sinv" => hex(&Sc::from_bytes_mod_order(&a32(&a(1))).inv().to_bytes()),
            "swide" => hex(&Sc::from_bytes_mod_order_wide(&a64(&a(1))).to_bytes()),
            "edmul" => {
                let p = Aff::decompress(&a32(&a(2))).ok_or("edmul decompress")?;
                hex(&p.mul(&U256::from_le(&a32(&a(1)))).compress())
            }
            "edadd" => {
                let p = Aff::decompress(&a32(&a(1))).ok_or("edadd decompress")?;
                let q = Aff::decompress(&a32(&a(2))).ok_or("edadd decompress")?;
                ck!(p.add(&q) == p.to_proj().add(&q.to_proj()).to_aff(), "line {}: affine vs projective add", ln + 1);
                hex(&p.add(&q).compress())
            }
            "decomp" => match Aff::decompress(&a32(&a(1))) {
                None => "none".to_string(),
                Some(p) => {
                    ck!(p.on_curve(), "line {}: decompressed point off curve", ln + 1);
                    format!("{}{}", hex(&p.x.to_bytes()), hex(&p.y.to_bytes()))
                }
            },
            "x25519" => hex(&mont::x25519(&a32(&a(1)), &a32(&a(2)))),
            "x25519iter" => {
                let iters: usize = f[1].parse().unwrap();
                let mut k = [0u8; 32];
                k[0] = 9;
                let mut u = k;
                for _ in 0..iters {
                    let r = mont::x25519(&k, &u);
                    u = k;
                    k = r;
                }
                hex(&k)
            }
            "edsign" => {
                let seed = a32(&a(1));
                let e = eddsa::expand(&seed);
                let sig = eddsa::sign(&seed, &a(2));
                ck!(eddsa::verify(&e.pk, &[], &a(2), &sig, eddsa::SCheck::Canonical), "line {}: model rejects own signature", ln + 1);
                ck!(eddsa::verify_strict(&e.pk, &[], &a(2), &sig, eddsa::SCheck::Canonical), "line {}: model strict rejects own signature", ln + 1);
                format!("{}{}", hex(&e.pk), hex(&sig))
            }
            "edsignph" => {
                let seed = a32(&a(1));
                let e = eddsa::expand(&seed);
                let ctx = a(3);
                let sig = eddsa::sign_ph(&seed, &a64(&a(2)), &ctx);
                ck!(eddsa::verify(&e.pk, &eddsa::dom2(1, &ctx), &a(2), &sig, eddsa::SCheck::Canonical), "line {}: model rejects own ph signature", ln + 1);
                format!("{}{}", hex(&e.pk), hex(&sig))
            }
            other => return Err(format!("pyref line {}: unknown op {}", ln + 1, other)),
        };
        ck!(got == *f.last().unwrap(), "pyref line {} ({}): model {} expected {}", ln + 1, f[0], got, f.last().unwrap());
    }
    // Ed25519 sign.input: seed||pk : pk : msg : sig||msg :
    let text = std::fs::read_to_string(format!("{}/ed25519_sign.input", vec_dir())).map_err(|e| e.to_string())?;
    for (ln, line) in text.lines().enumerate() {
        let f: Vec<&str> = line.split(':').collect();
        let sk = unhex(f[0]);
        let pk = unhex(f[1]);
        let msg = unhex(f[2]);
        let sigmsg = unhex(f[3]);
        let seed = a32(&sk[..32]);
        let e = eddsa::expand(&seed);
        ck!(e.pk[..] == pk[..], "sign.input line {}: public key", ln + 1);
        let sig = eddsa::sign(&seed, &msg);
        ck!(sig[..] == sigmsg[..64], "sign.input line {}: signature", ln + 1);
        if ln % 16 == 0 {
            ck!(eddsa::verify(&e.pk, &[], &msg, &sig, eddsa::SCheck::Canonical), "sign.input line {}: verify", ln + 1);
            let mut bad = sig;
            bad[40] ^= 1;
            ck!(!eddsa::verify(&e.pk, &[], &msg, &bad, eddsa::SCheck::Canonical), "sign.input line {}: verify must reject", ln + 1);
        }
    }
    // ristretto small multiples
    let text = std::fs::read_to_string(format!("{}/ristretto_small_multiples.txt", vec_dir())).map_err(|e| e.to_string())?;
    let mut acc = Aff::IDENTITY;
    for (i, line) in text.lines().enumerate() {
        let want = a32(&unhex(line));
        ck!(rist::encode(&acc) == want, "ristretto {}*B encode", i);
        let dec = rist::decode(&want).ok_or(format!("ristretto {}*B decode", i))?;
        ck!(rist::equal(&dec, &acc), "ristretto {}*B decode equals", i);
        // every representative encodes the same
        for t in ed::torsion_points().iter().step_by(2) {
            ck!(rist::encode(&acc.add(t)) == want, "ristretto {}*B + T4 encode", i);
        }
        acc = acc.add(&b);
    }
    let text = std::fs::read_to_string(format!("{}/ristretto_elligator.txt", vec_dir())).map_err(|e| e.to_string())?;
    for (i, line) in text.lines().enumerate() {
        let f: Vec<&str> = line.split_whitespace().collect();
        let r0 = Fp::from_bytes(&a32(&unhex(f[0])));
        ck!(hex(&rist::encode(&rist::map(&r0))) == f[1], "ristretto elligator vector {}", i);
    }
    let text = std::fs::read_to_string(format!("{}/ristretto_one_way_map.txt", vec_dir())).map_err(|e| e.to_string())?;
    for (i, line) in text.lines().enumerate() {
        let f: Vec<&str> = line.split_whitespace().collect();
        let pt = rist::from_uniform_bytes(&a64(&unhex(f[0])));
        ck!(pt.on_curve(), "one-way map {} on curve", i);
        ck!(hex(&rist::encode(&pt)) == f[1], "ristretto one-way map vector {}", i);
    }
    // RFC 9496 bad encodings (appendix A.2), all must be rejected
    for bad in [
        "00ffffffffffffffffffffffffffffffffffffffffffffffffffffffffffffff",
        "ffffffffffffffffffffffffffffffffffffffffffffffffffffffffffffff7f",
        "f3ffffffffffffffffffffffffffffffffffffffffffffffffffffffffffff7f",
        "edffffffffffffffffffffffffffffffffffffffffffffffffffffffffffff7f",
        "0100000000000000000000000000000000000000000000000000000000000000",
        "01ffffffffffffffffffffffffffffffffffffffffffffffffffffffffffff7f",
        "ed57ffd8c914fb201471d1c3d245ce3c746fcbe63a3679d51b6a516ebebe0e20",
        "c34c4e1826e5d403b78e246e88aa051c36ccf0aafebffe137d148a2bf9104562",
        "c940e5a4404157cfb1628b108db051a8d439e1a421394ec4ebccb9ec92a8ac78",
        "47cfc5497c53dc8e61c91d17fd626ffb1c49e2bca94eed052281b510b1117a24",
        "f1c6165d33367351b0da8f6e4511010c68174a03b6581212c71c0e1d026c3c72",
        "87260f7a2f12495118360f02c26a470f450dadf34a413d21042b43b9d93e1309",
        "26948d35ca62e643e26a83177332e6b6afeb9d08e4268b650f1f5bbd8d81d371",
        "4eac077a713c57b4f4397629a4145982c661f48044dd3f96427d40b147d9742f",
        "de6a7b00deadc788eb6b6c8d20c0ae96c2f2019078fa604fee5b87d6e989ad7b",
        "bcab477be20861e01e4a0e295284146a510150d9817763caf1a6f4b422d67042",
        "2a292df7e32cababbd9de088d1d1abec9fc0440f637ed2fba145094dc14bea08",
        "f4a9e534fc0d216c44b218fa0c42d99635a0127ee2e53c712f70609649fdff22",
        "8268436f8c4126196cf64b3c7ddbda90746a378625f9813dd9b8457077256731",
        "2810e5cbc2cc4d4eece54f61c6f69758e289aa7ab440b3cbeaa21995c2f4232b",
        "3eb858e78f5a7254d8c9731174a94f76755fd3941c0ac93735c07ba14579630e",
        "a45fdc55c76448c049a1ab33f17023edfb2be3581e9c7aade8a6125215e04220",
        "d483fe813c6ba647ebbfd3ec41adca1c6130c2beeee9d9bf065c8d151c5f396e",
        "8a2e1d30050198c65a54483123960ccc38aef6848e1ec8f5f780e8523769ba32",
        "32888462f8b486c68ad7dd9610be5192bbeaf3b443951ac1a8118419d9fa097b",
        "227142501b9d4355ccba290404bde41575b037693cef1f438c47f8fbf35d1165",
        "5c37cc491da847cfeb9281d407efc41e15144c876e0170b499a96a22ed31e01e",
        "445425117cb8c90edcbc7c1cc0e74f747f2c1efa5630a967c64f287792a48a4b",
        "ecffffffffffffffffffffffffffffffffffffffffffffffffffffffffffff7f",
    ] {
        ck!(rist::decode(&a32(&unhex(bad))).is_none(), "RFC 9496 bad encoding {} accepted by the model", bad);
    }
    // U512 remainder sanity: (l*l - 1) mod l = l - 1
    let ll = sc::l().mul_wide(&sc::l());
    let (llm1, _) = ll.sub_b(&U256::ONE.widen());
    ck!(llm1.rem(&sc::l()) == sc::l().wrapping_sub(&U256::ONE), "U512 rem");
    // fast fold reduction mod l against bitwise long division, on structured and pseudo-random inputs
    let mut x = U512([0x243f6a8885a308d3, 0x13198a2e03707344, 0xa4093822299f31d0, 0x082efa98ec4e6c89, 0x452821e638d01377, 0xbe5466cf34e90c6c, 0xc0ac29b7c97c50dd, 0x3f84d5b5b5470917]);
    for i in 0..20000u64 {
        // xorshift-style scrambling of all limbs; every 7th input is made structured
        for j in 0..8 {
            let a = x.0[j];
            let b = x.0[(j + 3) % 8];
            x.0[j] = (a ^ (a << 13) ^ (b >> 7)).wrapping_mul(0x9e3779b97f4a7c15).wrapping_add(i);
        }
        let mut y = x;
        match i % 7 {
            0 => y.0[4..].iter_mut().for_each(|w| *w = u64::MAX),
            1 => y.0[..4].iter_mut().for_each(|w| *w = 0),
            2 => y = sc::l().mul_wide(&y.lo()),
            3 => y = sc::l().mul_wide(&y.lo()).sub_b(&U256::ONE.widen()).0,
            _ => {}
        }
        ck!(Sc::from_u512(&y).0 == y.rem(&sc::l()), "fold reduction vs long division at i={}", i);
    }
    ck!(Sc::from_u512(&U512([u64::MAX; 8])).0 == U512([u64::MAX; 8]).rem(&sc::l()), "fold reduction of 2^512-1");
    Ok(n)
}
