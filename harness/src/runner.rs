//! Generic proptest-driven runner: strategy -> Req -> real code -> oracle, with classification,
//! distinct-non-trivial counting, samples, shrinking and replay files.
use crate::req::{Req, Resp};
use proptest::strategy::{BoxedStrategy, Strategy};
use proptest::test_runner::{Config, RngSeed, TestCaseError, TestError, TestRunner};
use serde_json::{json, Value};
use std::cell::RefCell;
use std::collections::{BTreeMap, HashSet};

pub type Oracle = Box<dyn Fn(&Req, &Resp) -> Result<(), String>>;
/// labels naming the interesting features of a case; empty = trivial ("plain")
pub type Classifier = Box<dyn Fn(&Req, &Resp) -> Vec<&'static str>>;
pub type Exec = Box<dyn Fn(&Req) -> Resp>;

pub struct Check {
    pub name: String,
    pub strategy: BoxedStrategy<Req>,
    pub cases: u32,
    pub exec: Exec,
    pub oracle: Oracle,
    pub classify: Classifier,
    pub rule: &'static str,
    /// true for complete enumerations (not split across shards)
    pub exhaustive: bool,
    /// complete enumeration: run exactly these requests, in order, without proptest
    pub enumerate: Option<Vec<Req>>,
}

#[derive(Default)]
pub struct Stats {
    pub evaluations: u64,
    pub classes: BTreeMap<String, u64>,
    pub nontrivial: HashSet<u64>,
    pub samples: Vec<Value>,
    pub sample_classes: HashSet<String>,
    pub frozen: bool,
}

pub struct Outcome {
    pub name: String,
    pub stats: Stats,
    pub rule: String,
    pub violation: Option<Value>,
    pub wall_s: f64,
}

fn run_enumeration(chk: Check, items: Vec<Req>, seed: u64, config_name: &str) -> Outcome {
    let t0 = std::time::Instant::now();
    let mut st = Stats::default();
    let mut violation = None;
    for req in items.iter() {
        let resp = (chk.exec)(req);
        st.evaluations += 1;
        let labels = (chk.classify)(req, &resp);
        if labels.is_empty() {
            *st.classes.entry("plain".into()).or_insert(0) += 1;
        } else {
            st.nontrivial.insert(req.key());
            for l in &labels {
                *st.classes.entry(l.to_string()).or_insert(0) += 1;
            }
        }
        let key = format!("{}:{}", req.op, labels.join("+"));
        if st.samples.len() < 12 && !st.sample_classes.contains(&key) {
            st.sample_classes.insert(key.clone());
            st.samples.push(json!({"check": chk.name, "classes": key, "req": req.to_json(), "resp": resp.short()}));
        }
        if let Err(m) = (chk.oracle)(req, &resp) {
            violation = Some(json!({
                "check": chk.name, "config": config_name, "seed": seed,
                "req": req.to_json(), "got": resp.to_json(), "message": m,
            }));
            break;
        }
    }
    Outcome { name: chk.name, stats: st, rule: chk.rule.to_string(), violation, wall_s: t0.elapsed().as_secs_f64() }
}

pub fn run_check(mut chk: Check, seed: u64, config_name: &str) -> Outcome {
    if let Some(items) = chk.enumerate.take() {
        return run_enumeration(chk, items, seed, config_name);
    }
    let t0 = std::time::Instant::now();
    let stats = RefCell::new(Stats::default());
    let sub_seed = seed ^ crate::util::fnv(chk.name.as_bytes());
    let cfg = Config {
        cases: chk.cases,
        failure_persistence: None,
        rng_seed: RngSeed::Fixed(sub_seed),
        // shrinking re-executes the case: for the checks with very large inputs (thousands of points per case) a
        // full shrink would run into the watchdog and turn a violation into "inconclusive"
        max_shrink_iters: if chk.name.contains("huge") || chk.name.contains("large") || chk.name.contains("positions") { 48 } else { 4096 },
        max_global_rejects: 65536,
        ..Config::default()
    };
    let mut runner = TestRunner::new(cfg);
    let last_fail: RefCell<Option<(Req, Resp, String)>> = RefCell::new(None);
    let result = runner.run(&chk.strategy, |req| {
        let resp = (chk.exec)(&req);
        let verdict = (chk.oracle)(&req, &resp);
        {
            let mut st = stats.borrow_mut();
            if !st.frozen {
                st.evaluations += 1;
                let labels = (chk.classify)(&req, &resp);
                if labels.is_empty() {
                    *st.classes.entry("plain".into()).or_insert(0) += 1;
                } else {
                    st.nontrivial.insert(req.key());
                    for l in &labels {
                        *st.classes.entry(l.to_string()).or_insert(0) += 1;
                    }
                }
                let key = if labels.is_empty() { "plain".to_string() } else { labels.join("+") };
                if st.samples.len() < 12 && !st.sample_classes.contains(&key) {
                    st.sample_classes.insert(key.clone());
                    st.samples.push(json!({"check": chk.name, "classes": key, "req": req.to_json(), "resp": resp.short()}));
                }
                if verdict.is_err() {
                    st.frozen = true; // shrinking starts: stop counting
                }
            }
        }
        match verdict {
            Ok(()) => Ok(()),
            Err(m) => {
                *last_fail.borrow_mut() = Some((req.clone(), resp.clone(), m.clone()));
                Err(TestCaseError::fail(m))
            }
        }
    });
    let violation = match result {
        Ok(()) => None,
        Err(TestError::Fail(reason, req)) => {
            // re-execute the minimal case outside proptest to report exactly what it does
            let resp = (chk.exec)(&req);
            let msg = match (chk.oracle)(&req, &resp) {
                Err(m) => m,
                Ok(()) => format!("(not reproducible on re-execution) {}", reason),
            };
            Some(json!({
                "check": chk.name, "config": config_name, "seed": seed,
                "req": req.to_json(), "got": resp.to_json(), "message": msg,
            }))
        }
        Err(TestError::Abort(reason)) => Some(json!({
            "check": chk.name, "config": config_name, "seed": seed, "abort": reason.to_string(),
        })),
    };
    Outcome { name: chk.name, stats: stats.into_inner(), rule: chk.rule.to_string(), violation, wall_s: t0.elapsed().as_secs_f64() }
}

/// Plain re-execution of a replay file's request, bypassing proptest.
pub fn replay_one(chk: &Check, req: &Req) -> Result<(), String> {
    let resp = (chk.exec)(req);
    (chk.oracle)(req, &resp).map_err(|m| format!("{} (got {})", m, resp.short()))
}

pub fn strat<S: Strategy<Value = Req> + 'static>(s: S) -> BoxedStrategy<Req> {
    s.boxed()
}
