//! Generator library (proptest strategies). All randomness comes from proptest, so every case
//! is a pure function of VERIF_SEED and shrinks.
use crate::model::big::{U256, U512};
use crate::model::ed::{self, Aff};
use crate::model::fp::{self, Fp};
use crate::model::sc::{self, Sc};
use proptest::collection::vec;
use proptest::prelude::*;
use std::sync::OnceLock;

pub type B32 = [u8; 32];
pub type B64 = [u8; 64];

fn pow2(k: usize) -> U256 {
    U256::ONE.shl(k)
}

/// Named special 256-bit integers (see DESIGN.md 2.4).
pub fn specials256() -> &'static Vec<U256> {
    static S: OnceLock<Vec<U256>> = OnceLock::new();
    S.get_or_init(|| {
        let p = fp::p();
        let l = sc::l();
        let mut v = vec![];
        for x in [0u64, 1, 2, 3, 8, 9, 18, 19, 20, 37, 38, 39, 255, 256] {
            v.push(U256::from_u64(x));
        }
        v.push(p);
        v.push(p.wrapping_add(&p)); // 2p = 2^256 - 38
        v.push(p.shr(1)); // (p-1)/2
        v.push(p.shr(1).wrapping_add(&U256::ONE));
        for k in [51usize, 102, 153, 204, 26, 77, 128, 179, 230, 25, 52, 104, 156, 208, 29, 58, 87, 116, 145, 174, 203, 232, 64, 128, 192, 250, 251, 252, 253, 254, 255] {
            v.push(pow2(k));
        }
        v.push(U256::MAX);
        v.push(U256::MAX.shr(1)); // 2^255-1
        v.push(U256::MAX.shr(2));
        v.push(U256::MAX.shr(3)); // 2^253-1
        v.push(U256::MAX.shr(4)); // 2^252-1
        let mut kl = U256::ZERO;
        for _ in 1..=15 {
            kl = kl.wrapping_add(&l);
            v.push(kl);
        }
        v.push(l.shr(1));
        v.push(l.shr(1).wrapping_add(&U256::ONE));
        v.push(pow2(254).wrapping_add(&U256::from_u64(8)));
        // sqrt(-1) and its negative
        v.push(Fp::sqrt_m1().0);
        v.push(Fp::sqrt_m1().neg().0);
        v.push(fp::d().0);
        v.push(fp::d().neg().0);
        // Montgomery radix residues for the scalar backends
        v.push(U512::from_parts(&U256::ZERO, &U256::from_u64(16)).rem(&l)); // 2^260 mod l
        v.push(U512::from_parts(&U256::ZERO, &U256::from_u64(32)).rem(&l)); // 2^261 mod l
        v
    })
}

/// limb-boundary bit patterns for limb widths 51, 26/25, 52, 29
fn limb_patterns() -> &'static Vec<U256> {
    static S: OnceLock<Vec<U256>> = OnceLock::new();
    S.get_or_init(|| {
        let mut v = vec![];
        let layouts: [Vec<usize>; 4] = [
            vec![51; 5],
            vec![26, 25, 26, 25, 26, 25, 26, 25, 26, 25],
            vec![52, 52, 52, 52, 48],
            vec![29, 29, 29, 29, 29, 29, 29, 29, 24],
        ];
        for lay in layouts.iter() {
            let mut off = vec![0usize];
            for w in lay {
                off.push(off.last().unwrap() + w);
            }
            let n = lay.len();
            let ones = |i: usize| -> U256 {
                let hi = off[i + 1].min(256);
                let lo = off[i];
                let mut x = U256::ZERO;
                for b in lo..hi {
                    x = x.wrapping_add(&pow2(b));
                }
                x
            };
            // one limb all-ones, rest zero / rest all-ones
            for i in 0..n {
                v.push(ones(i));
                v.push(U256::MAX.shr(1).wrapping_sub(&ones(i)));
                v.push(pow2(off[i]));
                if off[i + 1] < 256 {
                    v.push(pow2(off[i + 1] - 1));
                }
            }
            // alternating limbs
            let mut alt0 = U256::ZERO;
            let mut alt1 = U256::ZERO;
            for i in 0..n {
                if i % 2 == 0 {
                    alt0 = alt0.wrapping_add(&ones(i));
                } else {
                    alt1 = alt1.wrapping_add(&ones(i));
                }
            }
            v.push(alt0);
            v.push(alt1);
            // all limbs = 2^(w-1) (top bit of every limb)
            let mut tops = U256::ZERO;
            for i in 0..n {
                if off[i + 1] <= 256 {
                    tops = tops.wrapping_add(&pow2(off[i + 1] - 1));
                }
            }
            v.push(tops);
        }
        v
    })
}

fn add_delta(x: &U256, d: i32) -> U256 {
    if d >= 0 {
        x.wrapping_add(&U256::from_u64(d as u64))
    } else {
        x.wrapping_sub(&U256::from_u64((-d) as u64))
    }
}

/// 32 bytes with explicit weight on every special class
pub fn u256_interesting() -> BoxedStrategy<B32> {
    let ns = specials256().len();
    let nl = limb_patterns().len();
    prop_oneof![
        4 => any::<B32>(),
        5 => (0..ns, -20i32..=20).prop_map(|(i, d)| add_delta(&specials256()[i], d).to_le()),
        2 => (0..ns, 0usize..256).prop_map(|(i, b)| { let mut x = specials256()[i].to_le(); x[b / 8] ^= 1 << (b % 8); x }),
        3 => (0..nl, -2i32..=2).prop_map(|(i, d)| add_delta(&limb_patterns()[i], d).to_le()),
        1 => (any::<u8>(), 0usize..=32).prop_map(|(b, n)| { let mut x = [0u8; 32]; for i in 0..n { x[i] = b; } x }),
        1 => (any::<u8>(), 0usize..=32).prop_map(|(b, n)| { let mut x = [0u8; 32]; for i in 0..n { x[31 - i] = b; } x }),
        1 => vec(0usize..256, 0..4).prop_map(|bits| { let mut x = [0u8; 32]; for b in bits { x[b / 8] |= 1 << (b % 8); } x }),
        1 => vec(0usize..256, 0..4).prop_map(|bits| { let mut x = [0xffu8; 32]; for b in bits { x[b / 8] &= !(1 << (b % 8)); } x }),
        // special in the low half, random high bits and vice versa
        1 => (any::<B32>(), 0..ns).prop_map(|(mut r, i)| { let s = specials256()[i].to_le(); r[..16].copy_from_slice(&s[..16]); r }),
    ]
    .boxed()
}

/// 64 bytes: k*l +- d, R^2-ish, lo/hi extremes, uniform
pub fn u512_interesting() -> BoxedStrategy<B64> {
    prop_oneof![
        3 => (any::<B32>(), any::<B32>()).prop_map(|(a, b)| join64(&a, &b)),
        3 => (u256_interesting(), u256_interesting()).prop_map(|(a, b)| join64(&a, &b)),
        // q*l + r for structured q and small/special r
        4 => (u256_interesting(), u256_interesting()).prop_map(|(q, r)| {
            let prod = U256::from_le(&q).mul_wide(&sc::l());
            let (s, c) = prod.add_c(&U256::from_le(&r).widen());
            if c { U512([u64::MAX; 8]).to_le() } else { s.to_le() }
        }),
        1 => (0usize..512).prop_map(|k| { let mut x = [0u8; 64]; x[k / 8] = 1 << (k % 8); x }),
        1 => (0usize..512).prop_map(|k| { let mut x = [0xffu8; 64]; x[k / 8] ^= 1 << (k % 8); x }),
        1 => (u256_interesting()).prop_map(|a| join64(&a, &[0u8; 32])),
        1 => (u256_interesting()).prop_map(|a| join64(&[0xffu8; 32], &a)),
    ]
    .boxed()
}

pub fn join64(a: &B32, b: &B32) -> B64 {
    let mut x = [0u8; 64];
    x[..32].copy_from_slice(a);
    x[32..].copy_from_slice(b);
    x
}

/// canonical scalar bytes (< l) with the special classes preserved where they are < l,
/// and otherwise reduced (so k*l+-d collapse to +-d, still boundary values)
pub fn scalar_canonical() -> BoxedStrategy<B32> {
    prop_oneof![
        6 => u256_interesting().prop_map(|b| Sc::from_bytes_mod_order(&b).to_bytes()),
        // near l from below, near 0
        2 => (0u64..64).prop_map(|d| sc::l().wrapping_sub(&U256::from_u64(d + 1)).to_le()),
        1 => (0u64..64).prop_map(|d| U256::from_u64(d).to_le()),
        // values with an all-ones 52-bit / 29-bit limb, below 2^252
        1 => (any::<B32>(), 0usize..5).prop_map(|(mut r, i)| { r[31] &= 0x0f; let mut v = U256::from_le(&r); for b in (52 * i)..(52 * (i + 1)).min(252) { if !v.bit(b) { v = v.wrapping_add(&pow2(b)); } } v.to_le() }),
        1 => (any::<B32>(), 0usize..9).prop_map(|(mut r, i)| { r[31] &= 0x0f; let mut v = U256::from_le(&r); for b in (29 * i)..(29 * (i + 1)).min(252) { if !v.bit(b) { v = v.wrapping_add(&pow2(b)); } } v.to_le() }),
    ]
    .boxed()
}

/// non-zero canonical scalar
pub fn scalar_nonzero() -> BoxedStrategy<B32> {
    scalar_canonical().prop_map(|b| if b == [0u8; 32] { Sc::ONE.to_bytes() } else { b }).boxed()
}

/// scalars assembled window by window (recoding corners), below 2^255 unless `full`
pub fn scalar_digits() -> BoxedStrategy<B32> {
    (4usize..=8, vec(0u8..7, 64), any::<B32>(), 0u8..4).prop_map(|(w, picks, rnd, top)| {
        let mut v = U256::ZERO;
        let nd = (256 + w - 1) / w;
        for i in 0..nd {
            let half = 1u64 << (w - 1);
            let full = (1u64 << w) - 1;
            let r = (rnd[i % 32] as u64) & full;
            let d = match picks[i % 64] {
                0 => 0,
                1 => half - 1,
                2 => half,
                3 => half + 1,
                4 => full,
                5 => full - 1,
                _ => r,
            };
            if i * w < 256 {
                v = v.wrapping_add(&U256::from_u64(d).shl(i * w));
            }
        }
        let mut b = v.to_le();
        match top {
            0 => b[31] &= 0x7f,             // < 2^255
            1 => b[31] &= 0x0f,             // < 2^252 (canonical)
            2 => { b[31] &= 0x7f; b[31] |= 0x40 } // clamped-like
            _ => b[31] &= 0x7f,
        }
        b
    }).boxed()
}

/// bit patterns around 64-bit word boundaries (NAF windows straddling words)
pub fn scalar_word_edges() -> BoxedStrategy<B32> {
    (any::<B32>(), vec((0usize..4, -5i32..=4, any::<u16>()), 1..4)).prop_map(|(mut base, edits)| {
        base[31] &= 0x7f;
        let mut v = U256::from_le(&base);
        for (wi, off, pat) in edits {
            let pos = (64 * wi as i32 + 59 + off).clamp(0, 245) as usize;
            // overwrite 10 bits at pos with pat
            for k in 0..10 {
                let bit = (pat >> k) & 1 == 1;
                if v.bit(pos + k) != bit {
                    if bit { v = v.wrapping_add(&pow2(pos + k)); } else { v = v.wrapping_sub(&pow2(pos + k)); }
                }
            }
        }
        let mut b = v.to_le();
        b[31] &= 0x7f;
        b
    }).boxed()
}

/// any scalar-ish 32 bytes below 2^255 (documented domain of the unreduced entry points)
pub fn scalar_unreduced255() -> BoxedStrategy<B32> {
    prop_oneof![
        3 => u256_interesting().prop_map(|mut b| { b[31] &= 0x7f; b }),
        3 => scalar_digits(),
        2 => scalar_word_edges(),
    ].boxed()
}

/// canonical scalars with recoding-corner structure
pub fn scalar_for_mul() -> BoxedStrategy<B32> {
    prop_oneof![
        3 => scalar_canonical(),
        3 => scalar_digits().prop_map(|b| Sc::from_bytes_mod_order(&b).to_bytes()),
        2 => scalar_digits().prop_map(|mut b| { b[31] &= 0x0f; b }),
        2 => scalar_word_edges().prop_map(|mut b| { b[31] &= 0x0f; b }),
    ].boxed()
}

/// pairs of 32-byte strings for byte-equality of compressed forms: equal, differing in bit 255 only,
/// differing by p (aliases of the same field element), differing in one other bit, unrelated
pub fn byte_pairs(base: BoxedStrategy<B32>) -> BoxedStrategy<(B32, B32)> {
    (base.clone(), base, 0u8..6, 0usize..255).prop_map(|(a, b, kind, bit)| {
        let mut c = a;
        match kind {
            0 => {}
            1 => c[31] ^= 0x80,
            2 => {
                let (s, carry) = U256::from_le(&a).add_c(&crate::model::fp::p());
                if !carry { c = s.to_le(); } else { c = U256::from_le(&a).wrapping_sub(&crate::model::fp::p()).to_le(); }
            }
            3 => c[bit / 8] ^= 1 << (bit % 8),
            _ => c = b,
        }
        (a, c)
    }).boxed()
}

// ------------------------------------------------------------------------------------
// Points
// ------------------------------------------------------------------------------------

pub fn torsion() -> &'static Vec<Aff> {
    static S: OnceLock<Vec<Aff>> = OnceLock::new();
    S.get_or_init(ed::torsion_points)
}

/// Pool of points a_j*B with known small / structured discrete logs, built by model additions.
pub struct Pool {
    pub pts: Vec<(Sc, Aff)>,
}
pub fn pool() -> &'static Pool {
    static S: OnceLock<Pool> = OnceLock::new();
    S.get_or_init(|| {
        let b = Aff::basepoint();
        let mut pts = vec![];
        // deterministic, structured discrete logs
        let mut ks: Vec<Sc> = vec![];
        for k in [1u64, 2, 3, 4, 5, 7, 8, 15, 16, 17, 255, 256, 65537] {
            ks.push(Sc::from_u64(k));
        }
        ks.push(Sc::ONE.neg());
        ks.push(Sc::from_u64(2).neg());
        ks.push(Sc(sc::l().shr(1)));
        let mut x = Sc::from_u64(0x9e3779b97f4a7c15);
        for _ in 0..16 {
            x = x.mul(&x).add(&Sc::from_u64(0x243f6a8885a308d3));
            ks.push(x);
        }
        for k in ks {
            pts.push((k, b.mul(&k.0)));
        }
        Pool { pts }
    })
}

/// Next curve point at or after a given y (construction, no rejection in the property).
pub fn point_from_y(yb: &B32) -> Aff {
    let mut y = Fp::from_bytes(yb);
    loop {
        let mut e = y.to_bytes();
        e[31] |= yb[31] & 0x80;
        if let Some(p) = Aff::decompress(&e) {
            return p;
        }
        y = y.add(&Fp::ONE);
    }
}

/// A valid Edwards point (full group of order 8l) as its canonical encoding, with a class tag.
/// Classes: 0 pool, 1 pool + torsion, 2 torsion only, 3 identity, 4 arbitrary from y, 5 arbitrary + torsion-free by *8
pub fn edwards_point() -> BoxedStrategy<(u8, B32)> {
    let np = pool().pts.len();
    prop_oneof![
        4 => (0..np).prop_map(|i| (0u8, pool().pts[i].1.compress())),
        4 => (0..np, 1usize..8).prop_map(|(i, t)| (1u8, pool().pts[i].1.add(&torsion()[t]).compress())),
        2 => (0usize..8).prop_map(|t| (2u8, torsion()[t].compress())),
        1 => Just((3u8, Aff::IDENTITY.compress())),
        4 => u256_interesting().prop_map(|y| (4u8, point_from_y(&y).compress())),
        2 => u256_interesting().prop_map(|y| (5u8, point_from_y(&y).mul8().compress())),
        // x chosen, y solved from the curve equation (y^2 = (1 + x^2) / (1 - d x^2)): small / sparse / near-p
        // x-coordinates, both signs. Encodings only fix y, so a generator working on encodings always gets a
        // pseudo-random x; representation bugs that need a special x (e.g. -x stored with its top limb above
        // 2^51: seeded changes C11b, C15f, C03h) need this direction.
        3 => (u256_interesting(), any::<bool>(), any::<bool>()).prop_map(|(xb, neg, clear)| (6u8, point_from_x(&xb, neg, clear).compress())),
    ].boxed()
}

/// the point with the first x >= the given value (mod p) that lies on the curve, or its negative; `small`
/// clears the high 48 bits of x first (x below 2^208)
pub fn point_from_x(xb: &B32, neg: bool, small: bool) -> Aff {
    let mut b = *xb;
    b[31] &= 0x7f;
    if small {
        for i in 26..32 { b[i] = 0; }
    }
    let mut x = Fp::from_bytes(&b);
    loop {
        let x2 = x.sq();
        let den = Fp::ONE.sub(&fp::d().mul(&x2));
        if !den.is_zero() {
            if let Some(y) = Fp::ONE.add(&x2).div(&den).sqrt() {
                let p = Aff { x, y };
                return if neg { p.neg() } else { p };
            }
        }
        x = x.add(&Fp::ONE);
    }
}

/// the 2 x 19 non-canonical y encodings (y in [p, 2^255)), those on the curve and those not
pub fn noncanonical_y() -> BoxedStrategy<B32> {
    (0u64..19, any::<bool>()).prop_map(|(k, s)| {
        let mut b = fp::p().wrapping_add(&U256::from_u64(k)).to_le();
        if s { b[31] |= 0x80; }
        b
    }).boxed()
}

/// 32-byte strings by decoder class for the Edwards decoder
pub fn edwards_encoding() -> BoxedStrategy<(u8, B32)> {
    prop_oneof![
        3 => edwards_point().prop_map(|(_, e)| (0u8, e)),
        2 => noncanonical_y().prop_map(|e| (1u8, e)),
        2 => u256_interesting().prop_map(|e| (2u8, e)),
        1 => any::<B32>().prop_map(|e| (3u8, e)),
        // y = +-1, 0 with either sign bit
        1 => (0usize..3, any::<bool>()).prop_map(|(w, s)| { let y = [Fp::ONE, Fp::ONE.neg(), Fp::ZERO][w]; let mut b = y.to_bytes(); if s { b[31] |= 0x80; } (4u8, b) }),
        // valid point with sign bit flipped (x=0 cases included through torsion)
        1 => edwards_point().prop_map(|(_, mut e)| { e[31] ^= 0x80; (5u8, e) }),
        // near-misses of the torsion encodings and of the basepoint (ordinary points or invalid strings)
        1 => (0usize..9, 0u8..3, 0usize..256).prop_map(|(t, kind, pos)| { let b = if t < 8 { torsion()[t].compress() } else { Aff::basepoint().compress() }; (2u8, near_miss(b, kind, pos)) }),
        // off-curve: valid y + 1 .. until off curve
        1 => edwards_point().prop_map(|(_, e)| { let mut y = Fp::from_bytes(&e); loop { y = y.add(&Fp::ONE); let b = y.to_bytes(); if Aff::decompress(&b).is_none() { return (6u8, b); } } }),
    ].boxed()
}

/// Montgomery u-coordinates by class
/// a near-miss of a special 32-byte constant: one bit flipped, two adjacent bytes transposed, or the two
/// nibbles of one byte swapped - the typos a hand-copied table of special encodings contains (seeded change
/// C07g: one entry of a small-order table mistyped, which turns ONE ordinary key into a "low-order" one)
pub fn near_miss(b: B32, kind: u8, pos: usize) -> B32 {
    let mut c = b;
    match kind % 3 {
        0 => c[(pos / 8) % 32] ^= 1 << (pos % 8),
        1 => c.swap(pos % 31, pos % 31 + 1),
        _ => { let i = pos % 32; c[i] = c[i].rotate_left(4); }
    }
    c
}

pub fn montgomery_u() -> BoxedStrategy<(u8, B32)> {
    prop_oneof![
        // near-misses of the small-order u-coordinates (must behave like ordinary points)
        2 => (0usize..8, 0u8..3, 0usize..256).prop_map(|(t, kind, pos)| (4u8, near_miss(torsion()[t].to_montgomery_u().to_bytes(), kind, pos))),
        2 => (0u64..3, any::<bool>()).prop_map(|(k, hi)| { let v = [Fp::ZERO, Fp::ONE, Fp::ONE.neg()][k as usize]; let mut b = v.to_bytes(); if hi { b[31] |= 0x80; } (0u8, b) }),
        // non-canonical: p + k for k < 19
        2 => (0u64..19, any::<bool>()).prop_map(|(k, hi)| { let mut b = fp::p().wrapping_add(&U256::from_u64(k)).to_le(); if hi { b[31] |= 0x80; } (1u8, b) }),
        // torsion u-coordinates
        2 => (0usize..8, any::<bool>()).prop_map(|(t, hi)| { let mut b = torsion()[t].to_montgomery_u().to_bytes(); if hi { b[31] |= 0x80; } (2u8, b) }),
        // curve points
        3 => edwards_point().prop_map(|(_, e)| (3u8, Aff::decompress(&e).unwrap().to_montgomery_u().to_bytes())),
        // arbitrary (half are twist points)
        3 => u256_interesting().prop_map(|b| (4u8, b)),
        1 => any::<B32>().prop_map(|b| (4u8, b)),
    ].boxed()
}

/// byte strings of every length 0..=100 plus a few long ones
pub fn bytes_any_len() -> BoxedStrategy<Vec<u8>> {
    prop_oneof![
        6 => vec(any::<u8>(), 0..=100),
        1 => vec(any::<u8>(), 100..=4096),
        2 => (u256_interesting(), 0usize..=40).prop_map(|(b, n)| { let mut v = b.to_vec(); v.extend_from_slice(&b); v.truncate(n.max(0)); v }),
        1 => (u256_interesting(), u256_interesting(), 60usize..=70).prop_map(|(a, b, n)| { let mut v = a.to_vec(); v.extend_from_slice(&b); v.extend_from_slice(&a); v.truncate(n); v }),
    ].boxed()
}

/// messages with SHA-512 block-edge lengths
pub fn message() -> BoxedStrategy<Vec<u8>> {
    prop_oneof![
        3 => vec(any::<u8>(), 0..=4),
        3 => (prop::sample::select(vec![0usize, 1, 31, 32, 47, 48, 63, 64, 65, 79, 80, 111, 112, 113, 127, 128, 129, 175, 176, 239, 240, 255, 256, 257]), any::<u8>()).prop_map(|(n, b)| (0..n).map(|i| b.wrapping_add(i as u8)).collect()),
        2 => vec(any::<u8>(), 0..=300),
        1 => vec(any::<u8>(), 300..=4096),
    ].boxed()
}

// ------------------------------------------------------------------------------------
// "How special is this value" - value-based non-triviality rules
// ------------------------------------------------------------------------------------

fn near(x: &U256, y: &U256, bits: usize) -> bool {
    x.abs_diff(y).bits() <= bits
}

/// within 2^16 of a multiple of l (below 2^256)
pub fn near_multiple_of_l(b: &B32) -> bool {
    let x = U256::from_le(b);
    let r = x.rem(&sc::l());
    r.bits() <= 16 || sc::l().wrapping_sub(&r).bits() <= 16
}
pub fn near_pow2(b: &B32) -> bool {
    let x = U256::from_le(b);
    let n = x.bits();
    if n == 0 {
        return true;
    }
    near(&x, &pow2(n - 1), 16) || (n < 256 && near(&x, &pow2(n), 16)) || (n == 256 && U256::MAX.wrapping_sub(&x).bits() <= 16)
}
/// value (mod 2^255) in [p, 2^255) or within 2^16 of 0 / p
pub fn field_edge(b: &B32) -> bool {
    let mut c = *b;
    c[31] &= 0x7f;
    let x = U256::from_le(&c);
    x >= fp::p() || x.bits() <= 16 || fp::p().wrapping_sub(&x).bits() <= 16
}
/// has an all-ones limb in some layout (51 / 26-25 / 52 / 29)
pub fn has_all_ones_limb(b: &B32) -> bool {
    let x = U256::from_le(b);
    let run = |lo: usize, hi: usize| (lo..hi).all(|i| x.bit(i));
    (0..5).any(|i| run(51 * i, 51 * i + 51))
        || (0..5).any(|i| run(51 * i, 51 * i + 26) || run(51 * i + 26, 51 * i + 51))
        || (0..4).any(|i| run(52 * i, 52 * i + 52))
        || (0..8).any(|i| run(29 * i, 29 * i + 29))
}
pub fn special32(b: &B32) -> bool {
    near_multiple_of_l(b) || near_pow2(b) || field_edge(b) || has_all_ones_limb(b)
}
