mod model;
mod selftest;
mod util;

fn main() {
    let args: Vec<String> = std::env::args().collect();
    let cmd = args.get(1).map(|s| s.as_str()).unwrap_or("");
    match cmd {
        "selftest" => match selftest::run() {
            Ok(n) => println!("selftest ok: {} checks", n),
            Err(e) => {
                eprintln!("MODEL SELFTEST FAILED: {}", e);
                std::process::exit(2);
            }
        },
        _ => {
            eprintln!("usage: driver <selftest|...>");
            std::process::exit(2);
        }
    }
}
