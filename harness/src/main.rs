#![allow(dead_code)]
use dalek_verif_harness::*;

#[global_allocator]
static GLOBAL: dalek_verif_harness::alloc::Recorder = dalek_verif_harness::alloc::Recorder;

use props::Tier;
use serde_json::{json, Value};

fn config_name() -> String {
    std::env::var("VERIF_CONFIG").unwrap_or_else(|_| "unknown".into())
}

fn arg_after(args: &[String], flag: &str) -> Option<String> {
    args.iter().position(|a| a == flag).and_then(|i| args.get(i + 1).cloned())
}

/// driver run <ID> [--tier quick|thorough] [--seed N] [--out FILE] [--replay-dir DIR]
fn cmd_run(args: &[String]) -> i32 {
    let id = args.get(2).cloned().unwrap_or_default();
    let tier = match arg_after(args, "--tier").as_deref() {
        Some("thorough") => Tier::Thorough,
        _ => Tier::Quick,
    };
    let seed: u64 = arg_after(args, "--seed").and_then(|s| s.parse().ok()).unwrap_or(0);
    let out = arg_after(args, "--out");
    let replay_dir = arg_after(args, "--replay-dir").unwrap_or_else(|| "/verif/replays".into());
    let only = arg_after(args, "--only");
    let (shard, nshards) = match arg_after(args, "--shard") {
        Some(s) => {
            let mut it = s.split('/');
            let a: u64 = it.next().and_then(|x| x.parse().ok()).unwrap_or(0);
            let b: u64 = it.next().and_then(|x| x.parse().ok()).unwrap_or(1);
            (a, b.max(1))
        }
        None => (0, 1),
    };
    let cfgname = config_name();
    let checks = match props::checks(&id, tier) {
        Some(c) => c,
        None => {
            eprintln!("unknown property {}", id);
            return 2;
        }
    };
    let mut parts = vec![];
    let mut violations = vec![];
    let mut aborted = false;
    for chk in checks {
        if let Some(o) = &only {
            if !chk.name.contains(o.as_str()) {
                continue;
            }
        }
        let mut chk = chk;
        let exhaustive = chk.exhaustive;
        if nshards > 1 && !chk.exhaustive {
            chk.cases = ((chk.cases as u64 + nshards - 1) / nshards) as u32;
        } else if nshards > 1 && shard != 0 {
            continue; // enumerations run once, in shard 0
        }
        // every (configuration, shard) explores its own stream unless VERIF_SAME_STREAM is set
        let cfg_mix = if std::env::var("VERIF_SAME_STREAM").is_ok() { 0 } else { util::fnv(cfgname.as_bytes()) };
        let o = runner::run_check(chk, seed.wrapping_mul(0x9e3779b97f4a7c15).wrapping_add(shard) ^ cfg_mix, &cfgname);
        let mut viol_path = Value::Null;
        if let Some(v) = &o.violation {
            if v.get("abort").is_some() {
                eprintln!("check {} aborted: {}", o.name, v);
                aborted = true;
            } else {
                let mut v = v.clone();
                v["property"] = json!(id);
                let h = util::fnv(v.to_string().as_bytes());
                let _ = std::fs::create_dir_all(&replay_dir);
                let path = format!("{}/{}-{}-{:016x}.json", replay_dir, id, cfgname, h);
                std::fs::write(&path, serde_json::to_string_pretty(&v).unwrap()).expect("write replay");
                println!("VIOLATION property={} replay={}", id, path);
                eprintln!("violation detail: {}", v);
                viol_path = json!(path);
                violations.push(path);
            }
        }
        parts.push(json!({
            "check": o.name, "config": cfgname, "evaluations": o.stats.evaluations,
            "distinct_nontrivial": o.stats.nontrivial.len(), "classes": o.stats.classes,
            "samples": o.stats.samples, "rule": o.rule, "wall_s": o.wall_s, "violation": viol_path, "exhaustive": exhaustive,
        }));
    }
    // known findings of this property: re-execute each recorded request; report it while it still fails
    let kf_path = std::env::var("VERIF_KNOWN_FINDINGS").unwrap_or_else(|_| "/verif/known_findings.json".into());
    let mut known = vec![];
    if shard == 0 {
        if let Some(kf) = std::fs::read_to_string(&kf_path).ok().and_then(|s| serde_json::from_str::<Value>(&s).ok()) {
            for f in kf["findings"].as_array().cloned().unwrap_or_default() {
                let applies = f["property"].as_str() == Some(id.as_str()) || f["also"].as_array().map(|a| a.iter().any(|x| x.as_str() == Some(id.as_str()))).unwrap_or(false);
                let cfg_ok = f["configs"].as_array().map(|a| a.iter().any(|x| x.as_str() == Some(cfgname.as_str()))).unwrap_or(true);
                if !applies || !cfg_ok {
                    continue;
                }
                if let Some(req) = req::Req::from_json(&f["req"]) {
                    let cname = f["check"].as_str().unwrap_or("");
                    let pid = f["property"].as_str().unwrap_or("");
                    for chk in props::checks(pid, tier).unwrap_or_default().iter() {
                        if chk.name == cname {
                            if let Err(m) = runner::replay_one(chk, &req) {
                                println!("KNOWN-FINDING: property={} {} [{}]", id, f["id"].as_str().unwrap_or("?"), f["what"].as_str().unwrap_or(""));
                                known.push(json!({"id": f["id"], "still_fails_with": m, "config": cfgname}));
                            }
                        }
                    }
                }
            }
        }
    }
    let doc = json!({"monitors": ops::monitor_report(), "known_findings": known, "property": id, "config": cfgname, "seed": seed, "tier": if tier == Tier::Quick { "quick" } else { "thorough" }, "checks": parts, "violations": violations});
    match out {
        Some(p) => std::fs::write(p, serde_json::to_string_pretty(&doc).unwrap()).expect("write out"),
        None => println!("{}", serde_json::to_string_pretty(&doc).unwrap()),
    }
    if !violations.is_empty() {
        1
    } else if aborted {
        2
    } else {
        0
    }
}

/// driver replay <file>: re-execute a replay file's request against the real code and its oracle
fn cmd_replay(args: &[String]) -> i32 {
    let path = match args.get(2) {
        Some(p) => p,
        None => return 2,
    };
    let v: Value = match std::fs::read_to_string(path).ok().and_then(|s| serde_json::from_str(&s).ok()) {
        Some(v) => v,
        None => {
            eprintln!("cannot read {}", path);
            return 2;
        }
    };
    let id = v["property"].as_str().unwrap_or("").to_string();
    let name = v["check"].as_str().unwrap_or("").to_string();
    let req = match req::Req::from_json(&v["req"]) {
        Some(r) => r,
        None => {
            eprintln!("replay file has no request");
            return 2;
        }
    };
    let checks = props::checks(&id, Tier::Quick).unwrap_or_default();
    for chk in checks.iter() {
        if chk.name == name {
            return match runner::replay_one(chk, &req) {
                Ok(()) => {
                    println!("replay: property holds on this case");
                    0
                }
                Err(m) => {
                    println!("VIOLATION property={} replay={}", id, path);
                    eprintln!("{}", m);
                    1
                }
            };
        }
    }
    eprintln!("check {} not available in this configuration", name);
    2
}

fn main() {
    let args: Vec<String> = std::env::args().collect();
    let cmd = args.get(1).map(|s| s.as_str()).unwrap_or("");
    let code = match cmd {
        "selftest" => match selftest::run() {
            Ok(n) => {
                println!("selftest ok: {} checks", n);
                0
            }
            Err(e) => {
                eprintln!("MODEL SELFTEST FAILED: {}", e);
                2
            }
        },
        "run" => cmd_run(&args),
        "gen-stream" => stream::cmd_gen(&args),
        "exec-stream" => stream::cmd_exec(&args),
        "exec-one" => stream::cmd_exec_one(&args),
        "gen-secrets" => stream::cmd_gen_secrets(&args),
        "gen-fuzz-corpus" => stream::cmd_gen_fuzz_corpus(&args),
        "replay" => cmd_replay(&args),
        _ => {
            eprintln!("usage: driver <selftest|run|replay> ...");
            2
        }
    };
    std::process::exit(code);
}
