//! The request language: every operation of the three crates (and, with the verif cfg, of the
//! hook module) is an `op` name plus byte-string arguments; every outcome is a `Resp`.
//! Replay files and evidence samples are the JSON form of these.
use crate::util::{hex, unhex};
use serde_json::{json, Value};

#[derive(Clone, Debug, PartialEq, Eq, Hash)]
pub struct Req {
    pub op: String,
    pub a: Vec<Vec<u8>>,
}

#[derive(Clone, Debug, PartialEq, Eq)]
pub enum Resp {
    /// operation completed; payload is the concatenation of its outputs
    Ok(Vec<u8>),
    /// None / Err / CtOption::none
    Rej,
    /// the call panicked (message)
    Panic(String),
    /// operation does not exist in this build configuration
    Unsup,
}

impl Req {
    pub fn new(op: &str, a: Vec<Vec<u8>>) -> Req {
        Req { op: op.to_string(), a }
    }
    pub fn to_json(&self) -> Value {
        json!({"op": self.op, "a": self.a.iter().map(|x| hex(x)).collect::<Vec<_>>()})
    }
    pub fn from_json(v: &Value) -> Option<Req> {
        let op = v.get("op")?.as_str()?.to_string();
        let a = v.get("a")?.as_array()?.iter().map(|x| x.as_str().map(unhex)).collect::<Option<Vec<_>>>()?;
        Some(Req { op, a })
    }
    pub fn key(&self) -> u64 {
        let mut h = crate::util::fnv(self.op.as_bytes());
        for x in &self.a {
            h = h.wrapping_mul(0x100000001b3) ^ crate::util::fnv(x) ^ (x.len() as u64);
        }
        h
    }
    /// integer argument helper (little-endian, up to 8 bytes)
    pub fn int(&self, i: usize) -> u64 {
        let mut b = [0u8; 8];
        let s = &self.a[i];
        let n = s.len().min(8);
        b[..n].copy_from_slice(&s[..n]);
        u64::from_le_bytes(b)
    }
}

pub fn int_arg(x: u64) -> Vec<u8> {
    x.to_le_bytes().to_vec()
}

impl Resp {
    pub fn to_json(&self) -> Value {
        match self {
            Resp::Ok(b) => json!({"ok": hex(b)}),
            Resp::Rej => json!("rejected"),
            Resp::Panic(m) => json!({"panic": m}),
            Resp::Unsup => json!("unsupported"),
        }
    }
    pub fn from_json(v: &Value) -> Option<Resp> {
        if let Some(s) = v.as_str() {
            return match s {
                "rejected" => Some(Resp::Rej),
                "unsupported" => Some(Resp::Unsup),
                _ => None,
            };
        }
        if let Some(h) = v.get("ok") {
            return Some(Resp::Ok(unhex(h.as_str()?)));
        }
        if let Some(m) = v.get("panic") {
            return Some(Resp::Panic(m.as_str()?.to_string()));
        }
        None
    }
    pub fn short(&self) -> String {
        match self {
            Resp::Ok(b) if b.len() <= 96 => format!("ok:{}", hex(b)),
            Resp::Ok(b) => format!("ok:{}..({} bytes, fnv {:016x})", hex(&b[..32]), b.len(), crate::util::fnv(b)),
            Resp::Rej => "rejected".into(),
            Resp::Panic(m) => format!("panic:{}", m),
            Resp::Unsup => "unsupported".into(),
        }
    }
}
