#![allow(dead_code)]
//! Verification harness library: reference model, request language, executors, generators, properties.
pub mod alloc;
pub mod gens;
pub mod layout;
pub mod model;
pub mod mops;
pub mod ops;
pub mod props;
pub mod req;
pub mod runner;
pub mod selftest;
pub mod stream;
pub mod util;
