pub fn hex(b: &[u8]) -> String {
    let mut s = String::with_capacity(b.len() * 2);
    for x in b {
        s.push_str(&format!("{:02x}", x));
    }
    s
}
pub fn unhex(s: &str) -> Vec<u8> {
    let s = s.trim();
    if s == "-" {
        return vec![];
    }
    assert!(s.len() % 2 == 0, "odd hex length");
    (0..s.len() / 2).map(|i| u8::from_str_radix(&s[2 * i..2 * i + 2], 16).expect("hex")).collect()
}
pub fn a32(b: &[u8]) -> [u8; 32] {
    let mut a = [0u8; 32];
    a.copy_from_slice(b);
    a
}
pub fn a64(b: &[u8]) -> [u8; 64] {
    let mut a = [0u8; 64];
    a.copy_from_slice(b);
    a
}
/// FNV-1a 64, for stable hashing of cases (no dependence on std's random SipHash keys)
pub fn fnv(b: &[u8]) -> u64 {
    let mut h = 0xcbf29ce484222325u64;
    for x in b {
        h ^= *x as u64;
        h = h.wrapping_mul(0x100000001b3);
    }
    h
}
