//! Coverage-guided target for C09: bytes -> (key, signature, context flag, message); every
//! verification entry point must agree with the model's acceptance predicate.
#![no_main]
use dalek_verif_harness::req::{Req, Resp};
use libfuzzer_sys::fuzz_target;

fuzz_target!(|data: &[u8]| {
    if data.len() < 98 {
        return;
    }
    let pk = data[..32].to_vec();
    let sig = data[32..96].to_vec();
    let flags = data[96];
    let clen = (data[97] as usize).min(data.len() - 98).min(255);
    let ctx = data[98..98 + clen].to_vec();
    let msg = data[98 + clen..].to_vec();
    let req = Req::new("sig.verify", vec![pk, msg, sig, ctx, vec![flags & 1]]);
    let resp = dalek_verif_harness::ops::exec(&req);
    if resp == Resp::Unsup {
        return;
    }
    if let Err(m) = dalek_verif_harness::mops::oracle(&req, &resp) {
        eprintln!("PROPERTY VIOLATION: {}\nrequest: {}", m, req.to_json());
        std::process::abort();
    }
});
