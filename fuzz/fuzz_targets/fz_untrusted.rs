//! Coverage-guided target for C15 / C16 / C03 / C06 / C17: raw bytes are decoded into a request for
//! one of the entry points that consume untrusted input; the oracle (never a panic; None/Err exactly
//! where the model says malformed) is INSIDE the target.
#![no_main]
use dalek_verif_harness::props::c15;
use dalek_verif_harness::req::{Req, Resp};
use libfuzzer_sys::fuzz_target;

fn take<'a>(d: &mut &'a [u8], n: usize) -> Vec<u8> {
    let k = n.min(d.len());
    let (a, b) = d.split_at(k);
    *d = b;
    let mut v = a.to_vec();
    v.resize(n, 0);
    v
}

fn build(data: &[u8]) -> Option<Req> {
    if data.is_empty() {
        return None;
    }
    let sel = data[0];
    let mut d = &data[1..];
    Some(match sel % 20 {
        0 => Req::new("tot.slices", vec![d.to_vec()]),
        1 => Req::new("ed.decompress", vec![take(&mut d, 32)]),
        2 => Req::new("rs.decompress", vec![take(&mut d, 32)]),
        3 => Req::new("sc.canonical", vec![take(&mut d, 32)]),
        4 => Req::new("rs.from_uniform", vec![take(&mut d, 64)]),
        5 => {
            let k = take(&mut d, 1);
            Req::new("tot.nonspec_map", vec![d.to_vec(), vec![k[0] & 1]])
        }
        6 => {
            let s = take(&mut d, 1);
            Req::new("mt.to_edwards", vec![take(&mut d, 32), s])
        }
        7 => Req::new("x.x25519", vec![take(&mut d, 32), take(&mut d, 32)]),
        8 => {
            let t = take(&mut d, 2);
            Req::new("sd.raw", vec![vec![t[0] % 11], vec![t[1] & 1], d.to_vec()])
        }
        9 => {
            let t = take(&mut d, 3);
            let raw = d[..d.len().min(70)].to_vec();
            let (ty, fmt, shape) = (t[0] % 11, t[1] & 1, t[2] % 12);
            if dalek_verif_harness::mops::serde_ops::expected_de(ty, fmt, shape, &raw).is_none() {
                return None;
            }
            Req::new("sd.de", vec![vec![ty], vec![fmt], vec![shape], raw])
        }
        10 => Req::new("gp.ed_encoding", vec![take(&mut d, 32)]),
        11 => Req::new("gp.rs_encoding", vec![take(&mut d, 32)]),
        12 => Req::new("gp.from_repr", vec![take(&mut d, 32)]),
        13 => Req::new("sig.from_keypair", vec![take(&mut d, 64)]),
        14 => Req::new("mt.from_edwards", vec![take(&mut d, 32)]),
        15 => Req::new("sc.hash_pass", vec![d.to_vec()]),
        // hazmat::raw_verify with the pass-through context digest: the challenge is (R || A) mod l
        16 => Req::new("tot.verify_chosen_k", vec![take(&mut d, 32), take(&mut d, 32), take(&mut d, 32), d.to_vec()]),
        17 => Req::new("gp.rs_group", vec![take(&mut d, 64)]),
        18 => {
            let c = take(&mut d, 1);
            Req::new("gp.point_extras", vec![take(&mut d, 32), take(&mut d, 32), c])
        }
        _ => Req::new("gp.from_uniform", vec![take(&mut d, 64)]),
    })
}

fuzz_target!(|data: &[u8]| {
    if let Some(req) = build(data) {
        let resp = dalek_verif_harness::ops::exec(&req);
        if resp == Resp::Unsup {
            return;
        }
        if let Err(m) = c15::oracle(&req, &resp) {
            eprintln!("PROPERTY VIOLATION: {}\nrequest: {}", m, req.to_json());
            std::process::abort();
        }
    }
});
